"""C16 Loading an attestation file always terminates with a usable verdict.

Real HSMCertificate.from_jsonfile (open / json inside admin.certificate_v1 are in-memory stubs), _parse, the
element constructors of version 1 and 2, validate_and_get_values (element signature checks stubbed by a
symbolic verdict) and to_dict.  Termination is turned into an assertion by a STEP BUDGET: every read of an
element's `signed_by` is counted and the walk is aborted (BudgetExceeded) after 60 reads - far beyond what a
cycle-free graph of <= 3 elements needs.
"""
import os

from harness.common import obligation, part, reraise_control_flow, note

import admin.certificate_v1 as c1
import admin.certificate_v2 as c2
from admin.certificate import HSMCertificate

THOROUGH = os.environ.get("VERIF_TIER") == "thorough"
BUDGET = 60


class BudgetExceeded(BaseException):
    pass


class _Counter:
    n = 0


def _counting(prop):
    def getter(self):
        _Counter.n += 1
        if _Counter.n > BUDGET:
            raise BudgetExceeded()
        return prop.fget(self)
    return property(getter)


class _Json:
    JSONDecodeError = ValueError

    def __init__(self, doc):
        self.doc = doc
        self.dumped = None

    def loads(self, text):
        return self.doc

    def dumps(self, obj, indent=None):
        self.dumped = obj
        return "<json>"


class _File:
    def __enter__(self):
        return self

    def __exit__(self, *a):
        return False

    def read(self):
        return "<text>"

    def write(self, s):
        pass


_ORIG = {}


class Patched:
    """Installs the stubs (in-memory json / open, counting `signed_by`, verdict stub) once; restores on exit."""
    def __init__(self, verdict):
        self.verdict = verdict

    def __enter__(self):
        if not _ORIG:
            _ORIG.update({
                "json": c1.json, "sb1": c1.HSMCertificateElement.__dict__["signed_by"],
                "sb2": c2.HSMCertificateV2Element.__dict__["signed_by"],
                "iv": [(cls, cls.__dict__["is_valid"]) for cls in (
                    c1.HSMCertificateElement, c2.HSMCertificateV2ElementX509, c2.HSMCertificateV2ElementSGXQuote,
                    c2.HSMCertificateV2ElementSGXAttestationKey)],
            })
            from sim.base import c_boundary
            # message / key strings of the documents are concrete: their decoding and the C-struct parsing run natively
            for name in ("SgxQuote", "SgxReportBody", "is_nonempty_hex_string"):
                setattr(c2, name, c_boundary(getattr(c2, name)))
            c1.is_nonempty_hex_string = c_boundary(c1.is_nonempty_hex_string)
        from harness.c07 import _NativeBytes
        c2.bytes = _NativeBytes          # bytes.fromhex of the (concrete) 436-byte messages: natively, not character by character
        self.json = _Json(None)
        c1.json = self.json
        c1.open = lambda path, mode="r": _File()
        c1.HSMCertificateElement.signed_by = _counting(_ORIG["sb1"])
        c2.HSMCertificateV2Element.signed_by = _counting(_ORIG["sb2"])
        verdict = self.verdict
        for cls, _ in _ORIG["iv"]:
            cls.is_valid = lambda self, certifier: verdict
        return self

    def __exit__(self, *a):
        if "bytes" in c2.__dict__:
            del c2.bytes
        c1.json = _ORIG["json"]
        if "open" in c1.__dict__:
            del c1.open
        c1.HSMCertificateElement.signed_by = _ORIG["sb1"]
        c2.HSMCertificateV2Element.signed_by = _ORIG["sb2"]
        for cls, orig in _ORIG["iv"]:
            cls.is_valid = orig
        return False

    def load(self, doc):
        """from_jsonfile on `doc` under the step budget.  ('error', name) | ('budget',) | ('cert', cert)"""
        self.json.doc = doc
        _Counter.n = 0
        try:
            return ("cert", HSMCertificate.from_jsonfile("/x/cert.json"))
        except BudgetExceeded:
            return ("budget",)
        except Exception as e:
            reraise_control_flow(e)
            return ("error", type(e).__name__)


def usable(cert, root_name):
    """Independent check: every target has a finite, cycle-free path to the root."""
    els = cert._elements
    for t in cert._targets:
        seen = []
        cur = t
        for _ in range(len(els) + 2):
            if cur == root_name:
                break
            if cur in seen or cur not in els:
                return False
            seen.append(cur)
            cur = els[cur]._signed_by
        else:
            return False
        if cur != root_name:
            return False
    return True


def _spelling(v, key):
    """Hex fields may be re-spelt when saved (case, blanks between bytes): the bytes must be the same."""
    if type(v) is str and key in ("message", "signature", "custom_data", "auth_data", "tweak"):
        return "".join(v.split()).lower()
    return v


def preserves(doc, saved):
    """Every element the document declares once, with lower-case hex / canonical base64 fields, comes back unchanged
    (in particular: the whole signed message)."""
    els = doc.get("elements")
    if type(els) is not list:
        return True
    names = [e.get("name") for e in els if type(e) is dict]
    out = {e["name"]: e for e in saved["elements"]}
    for e in els:
        if type(e) is not dict or names.count(e.get("name")) != 1:
            continue
        got = out.get(e["name"])
        if got is None:
            return False
        for k in ("message", "signature", "custom_data", "auth_data", "signed_by", "tweak", "type"):
            if k in e and type(e[k]) is str and got.get(k) != e[k] and _spelling(got.get(k), k) != _spelling(e[k], k):
                return False
    return saved.get("targets") == doc.get("targets") and saved.get("version") == doc.get("version")


def check(doc, verdict, version):
    with Patched(verdict) as px:
        res = px.load(doc)
        if res[0] == "budget":
            return False                      # loading did not terminate within the budget
        if res[0] == "error":
            return True                       # an error was reported
        cert = res[1]
        root_name = "root" if version == 1 else "sgx_root"
        if not usable(cert, root_name):
            return False
        # validation terminates with a verdict for every target
        _Counter.n = 0
        try:
            out = cert.validate_and_get_values("<root of trust>")
        except BudgetExceeded:
            return False
        except Exception as e:
            reraise_control_flow(e)
            note("validate raised", type(e).__name__)
            return False
        if sorted(out.keys(), key=str) != sorted(set(cert._targets), key=str):
            return False
        for t in cert._targets:
            if bool(out[t][0]) != bool(verdict):
                return False
        # saving and loading again yields the same certificate (same verdicts and values)
        d1 = cert.to_dict()
        if not preserves(doc, d1):
            return False
        res2 = px.load(d1)
        if res2[0] != "cert":
            return False
        cert2 = res2[1]
        if cert2.to_dict() != d1:
            return False
        _Counter.n = 0
        out2 = cert2.validate_and_get_values("<root of trust>")
        # same verdicts AND same values (version 1: the message and the tweak the verdict carries)
        return [(k,) + (tuple(v) if version == 1 else (v[0],)) for k, v in sorted(out2.items(), key=str)] == \
            [(k,) + (tuple(v) if version == 1 else (v[0],)) for k, v in sorted(out.items(), key=str)]


QUOTE_MSG = "00" * 436          # sgx_quote_t (432 bytes) + 4 bytes: longer than the struct on purpose
ATTKEY_MSG = "00" * 400         # sgx_report_body_t (384 bytes) + 16
# a valid P-256 point (the generator): attestation key elements render their key through the ecdsa library when saved
P256_G = ("04" "6b17d1f2e12c4247f8bce6e563a440f277037d812deb33a0f4a13945d898c296"
          "4fe342e2fe1a7f9b8ee7eb4a7c0f9e162bce33576b315ececbb6406837bf51f5")
V1_NAMES = ["device", "attestation", "ui"]
V2_NAMES = ["quote", "attestation", "quoting_enclave"]


def smax():
    """Signer kinds per element: all 8, except in the version-2 three-element partitions (thorough tier), where 'missing' and
    'non-string' are left to the two-element partitions (each path there decodes three 436-byte quotes twice)."""
    return 5 if part() >= 9 else 7


def element(version, i, name_kind, signer_kind, n):
    names = V1_NAMES if version == 1 else V2_NAMES
    root = "root" if version == 1 else "sgx_root"
    el = {"message": "aabb", "signature": "3000"}
    if version == 2:
        # any element may be a target: use the element type that can provide a value (see `valueless_target`)
        el = {"type": "sgx_quote", "message": QUOTE_MSG, "custom_data": "cc", "signature": "3000"}
    # name: own | duplicate of element 0 | invalid | missing | non-string
    if name_kind == 0:
        el["name"] = names[i]
    elif name_kind == 1:
        el["name"] = names[0]
    elif name_kind == 2:
        el["name"] = "bogus"
    elif name_kind == 4:
        el["name"] = 5
    elif name_kind == 5:
        el["name"] = root           # named like the root sentinel
    # signer: root | element k | itself | dangling | missing | non-string
    if signer_kind == 0:
        el["signed_by"] = root
    elif 1 <= signer_kind <= 3:
        el["signed_by"] = names[(signer_kind - 1) % max(n, 1)]
    elif signer_kind == 4:
        el["signed_by"] = el.get("name", names[i])
    elif signer_kind == 5:
        el["signed_by"] = "nobody"
    elif signer_kind == 7:
        el["signed_by"] = ["root"]
    return el


@obligation(tier="quick", parts=lambda tier: 12 if tier == "thorough" else 9, timeout=300, thorough_timeout=3000,
            part_names=lambda p: "v%d/%d elements/target=%s" % (1 + p // 6, 2 + (p % 6) // 3, ["first", "last", "all"][p % 3]),
            bounds="graph focus: 2 or 3 elements; per element the signer is symbolic among {root, each element, itself, dangling, missing, "
                   "non-string} and the name kind of element 1 among {own, duplicate, invalid, missing, non-string, the root's name}; targets first / last / "
                   "all (partition); validation verdict symbolic; versions 1 and 2",
            examples=[(0, dict(s0=0, s1=1, s2=0, nk=0, verdict=True)), (3, dict(s0=2, s1=3, s2=2, nk=0, verdict=True)),
                      (5, dict(s0=0, s1=1, s2=2, nk=1, verdict=False)), (9, dict(s0=2, s1=3, s2=2, nk=0, verdict=True)),
                      (4, dict(s0=3, s1=0, s2=1, nk=0, verdict=True))])
def graph(s0: int, s1: int, s2: int, nk: int, verdict: bool) -> bool:
    """
    pre: 0 <= s0 <= smax() and 0 <= s1 <= smax() and 0 <= s2 <= smax()
    pre: 0 <= nk <= 5
    post: _
    """
    p = part()
    version = 1 + p // 6
    n = 2 + (p % 6) // 3
    names = V1_NAMES if version == 1 else V2_NAMES
    sk = [s0, s1, s2][:n]
    els = [element(version, i, nk if i == 1 else 0, sk[i], n) for i in range(n)]
    tsel = p % 3
    targets = [names[0]] if tsel == 0 else ([names[n - 1]] if tsel == 1 else names[:n])
    doc = {"version": version, "targets": targets, "elements": els}
    return check(doc, verdict, version)


FIELD_KINDS = ["valid", "absent", "not hex", "empty", "number", "list"]
KMAX = 5 if THOROUGH else 3        # quick: the first four kinds


def pick(lst, i):
    """lst[i] for a symbolic index, by case split (indexing a mixed-type list symbolically yields an untyped proxy)."""
    for k in range(len(lst)):
        if i == k:
            return lst[k]
    raise IndexError(i)


def field_value(kind, valid):
    return pick([valid, None, "zz", "", 7, ["aa"]], kind)


@obligation(tier="quick", parts=5, timeout=200,
            part_names=["v1 element fields", "v2 quote fields", "v2 attestation key fields", "v2 x509 fields", "top level (version, targets, elements)"],
            bounds="field focus: in a valid 2-element chain, the fields of one element (message, signature, tweak / custom_data / key / "
                   "auth_data, type) each symbolic among {valid, absent, not hex, empty (T: also number, list)}; top level: version among {1, 2, 3, "
                   "'1', null, absent}, targets among {list, absent, string, list with dangling / duplicate / non-string entries}, elements "
                   "among {list, absent, number, dict, list with a non-object}",
            examples=[(0, dict(a=0, b=0, c=0, d=0, verdict=True)), (0, dict(a=2, b=0, c=1, d=0, verdict=True)), (1, dict(a=0, b=0, c=0, d=0, verdict=False)),
                      (2, dict(a=0, b=0, c=3, d=0, verdict=True)), (3, dict(a=3, b=0, c=0, d=0, verdict=True)), (4, dict(a=0, b=0, c=0, d=0, verdict=True)),
                      (4, dict(a=2, b=3, c=2, d=0, verdict=True))])
def fields(a: int, b: int, c: int, d: int, verdict: bool) -> bool:
    """
    pre: 0 <= a <= KMAX and 0 <= b <= KMAX and 0 <= c <= KMAX and 0 <= d <= KMAX
    post: _
    """
    p = part()

    def put(m, key, kind, valid):
        v = field_value(kind, valid)
        if kind != 1:
            m[key] = v
    if p == 0:
        e0 = {"name": "device", "signed_by": "root"}
        put(e0, "message", a, "aabb")
        put(e0, "signature", b, "3000")
        if c != 1:
            put(e0, "tweak", c, "cc")
        e1 = {"name": "attestation", "signed_by": "device", "message": "aabb", "signature": "3000"}
        doc = {"version": 1, "targets": ["attestation"], "elements": [e0, e1]}
        return check(doc, verdict, 1)
    if p in (1, 2, 3):
        root = {"name": "quoting_enclave", "type": "x509_pem", "message": "QUJD", "signed_by": "sgx_root"}
        if p == 1:
            e = {"name": "quote", "type": "sgx_quote", "signed_by": "quoting_enclave"}
            put(e, "message", a, QUOTE_MSG)
            put(e, "custom_data", b, "cc")
            put(e, "signature", c, "3000")
        elif p == 2:
            e = {"name": "attkey", "type": "sgx_attestation_key", "signed_by": "quoting_enclave"}
            put(e, "message", a, ATTKEY_MSG)
            put(e, "key", b, P256_G)
            put(e, "auth_data", c, "dd")
            put(e, "signature", d, "3000")
        else:
            e = {"name": "pck", "signed_by": "quoting_enclave"}
            put(e, "message", a, "QUJD")
            e["type"] = pick(["x509_pem", None, "bogus", 7, "", ["x509_pem"]], b)
            if b == 1:
                del e["type"]
        if p == 1:
            doc = {"version": 2, "targets": ["quote"], "elements": [e, root]}
        else:
            # attestation key / x509 elements certify the quote, which is the target
            q = {"name": "quote", "type": "sgx_quote", "message": QUOTE_MSG, "custom_data": "cc", "signature": "3000",
                 "signed_by": e.get("name")}
            doc = {"version": 2, "targets": ["quote"], "elements": [q, e, root]}
        return check(doc, verdict, 2)
    # top level
    e0 = {"name": "device", "signed_by": "root", "message": "aabb", "signature": "3000"}
    e1 = {"name": "attestation", "signed_by": "device", "message": "aabb", "signature": "3000"}
    doc = {}
    ver = pick([1, 2, 3, "absent", "1", None], a)
    if ver != "absent":
        doc["version"] = ver
    tg = pick([["attestation"], "absent", ["nobody"], ["device", "device"], "attestation", [5]], b)
    if tg != "absent":
        doc["targets"] = tg
    elv = pick([[e0, e1], "absent", 5, [e0, "x"], {"device": e0}, []], c)
    if elv != "absent":
        doc["elements"] = elv
    return check(doc, verdict, 1 if ver != 2 else 2)


@obligation(tier="quick", parts=2, timeout=60, part_names=["x509 element as target", "attestation key element as target"],
            bounds="version 2 documents whose target is an element type that cannot provide a value",
            examples=[(0, dict(verdict=False)), (1, dict(verdict=False))])
def valueless_target(verdict: bool) -> bool:
    """
    post: _
    """
    from harness.common import known
    root = {"name": "quoting_enclave", "type": "x509_pem", "message": "QUJD", "signed_by": "sgx_root"}
    if part() == 0:
        doc = {"version": 2, "targets": ["quoting_enclave"], "elements": [root]}
    else:
        e = {"name": "attkey", "type": "sgx_attestation_key", "signed_by": "quoting_enclave", "message": ATTKEY_MSG,
             "key": P256_G, "auth_data": "dd", "signature": "3000"}
        doc = {"version": 2, "targets": ["attkey"], "elements": [e, root]}
    return check(doc, verdict, 2) or known("C16-valueless-target", verdict is True)


# ------------------------------------------------------------------ round trip with the elements' own checks

def _p256_forms():
    """The same P-256 point in the four encodings ecdsa accepts: raw x||y, uncompressed, compressed, hybrid."""
    x, y = bytes.fromhex(P256_G[2:66]), bytes.fromhex(P256_G[66:])
    odd = y[-1] & 1
    return [x + y, b"\x04" + x + y, bytes([2 + odd]) + x, bytes([6 + odd]) + x + y]


KEY_FORMS = _p256_forms()
KEY_FORM_NAMES = ["raw x||y", "uncompressed", "compressed", "hybrid"]


class _VerdictKey:
    """Public key whose signature verification is answered by the harness."""
    def __init__(self, real, verdict):
        self.real = real
        self.verdict = verdict

    def to_string(self, kind="raw"):
        from sim.base import c_boundary
        return c_boundary(self.real.to_string)(kind)

    def verify_digest(self, sig, digest, sigdecode=None):
        return self.verdict


@obligation(tier="quick", parts=4, timeout=200, part_names=KEY_FORM_NAMES,
            bounds="version 2 chain quote <- attestation key <- x509 with the REAL is_valid of the quote and attestation key elements "
                   "(real ecdsa key decoding on a concrete P-256 point in 4 encodings - partition; SHA-256 native; signature verification "
                   "answered by a symbolic verdict; the x509 element's validity a symbolic verdict); whether each binding hash sits in "
                   "the report data symbolic (prefix | second half | nowhere); auth data 1 or 40 bytes",
            examples=[(0, dict(vs=True, vx=True, wk=0, wq=0, long_auth=False)), (2, dict(vs=True, vx=True, wk=0, wq=0, long_auth=True)),
                      (1, dict(vs=True, vx=True, wk=1, wq=0, long_auth=False)), (3, dict(vs=False, vx=True, wk=0, wq=0, long_auth=False))])
def key_encodings(vs: bool, vx: bool, wk: int, wq: int, long_auth: bool) -> bool:
    """
    pre: 0 <= wk <= 2 and 0 <= wq <= 2
    post: _
    """
    import hashlib
    import ecdsa as real_ecdsa
    from sim.base import c_boundary
    from harness.c07 import report_body, place, _NativeBytes, _NativeHashlib, QUOTE_HEADER
    from harness.catalog import pat
    key = KEY_FORMS[part()]
    xy = KEY_FORMS[0]
    auth = pat(40, 9) if long_auth else b"\xdd"
    ak_msg = report_body(place(hashlib.sha256(xy + auth).digest(), wk))
    custom = pat(20, 5)
    q_msg = pat(QUOTE_HEADER, 6) + report_body(place(hashlib.sha256(custom).digest(), wq))
    doc = {"version": 2, "targets": ["quote"], "elements": [
        {"name": "quote", "type": "sgx_quote", "message": q_msg.hex(), "custom_data": custom.hex(), "signature": "3001",
         "signed_by": "attestation"},
        {"name": "attestation", "type": "sgx_attestation_key", "message": ak_msg.hex(), "key": key.hex(), "auth_data": auth.hex(),
         "signature": "3002", "signed_by": "quoting_enclave"},
        {"name": "quoting_enclave", "type": "x509_pem", "message": "QUJD", "signed_by": "sgx_root"}]}

    class _Ecdsa:
        NIST256p = real_ecdsa.NIST256p
        util = real_ecdsa.util

        class VerifyingKey:
            @staticmethod
            def from_string(b, curve=None):
                return _VerdictKey(c_boundary(real_ecdsa.VerifyingKey.from_string)(b, curve), vs)

    with Patched(vx) as px:
        # the quote's and the attestation key's own checks run; the x509 element keeps the verdict stub
        for cls, orig in _ORIG["iv"]:
            if cls in (c2.HSMCertificateV2ElementSGXQuote, c2.HSMCertificateV2ElementSGXAttestationKey):
                cls.is_valid = orig
        saved = (c2.ecdsa, c2.HSMCertificateV2ElementX509.__dict__["get_pubkey"])
        c2.ecdsa = _Ecdsa
        c2.bytes = _NativeBytes
        c2.hashlib = _NativeHashlib
        c2.HSMCertificateV2ElementX509.get_pubkey = lambda self: _VerdictKey(None, vs)
        try:
            res = px.load(doc)
            if res[0] != "cert":
                return False
            cert = res[1]
            _Counter.n = 0
            out = cert.validate_and_get_values("<root of trust>")
            want = bool(vx and vs and wk == 0 and wq == 0)
            if list(out.keys()) != ["quote"] or bool(out["quote"][0]) != want:
                return False
            d1 = cert.to_dict()
            if not preserves(doc, d1):
                return False
            # the saved key names the same point (any encoding)
            saved_key = [e for e in d1["elements"] if e["name"] == "attestation"][0]["key"]
            if c_boundary(bytes.fromhex)(saved_key) not in KEY_FORMS:
                return False
            res2 = px.load(d1)
            if res2[0] != "cert":
                return False
            _Counter.n = 0
            out2 = res2[1].validate_and_get_values("<root of trust>")
            return list(out2.keys()) == ["quote"] and bool(out2["quote"][0]) == want
        except BudgetExceeded:
            return False
        except Exception as e:
            reraise_control_flow(e)
            note("raised", type(e).__name__, str(e)[:200])
            return False
        finally:
            c2.ecdsa = saved[0]
            c2.HSMCertificateV2ElementX509.get_pubkey = saved[1]
            c2.hashlib = hashlib
            if "bytes" in c2.__dict__:
                del c2.bytes


# ------------------------------------------------------------------ attestation key fields that are hex but no key

BAD_KEYS = ["04" + "11" * 64,                  # 65 bytes, uncompressed prefix, not on the curve
            "11" * 64,                         # raw x||y, not on the curve
            "aabb",                            # far too short
            "05" + P256_G[2:],                 # a point with an unknown prefix byte
            "02" + "00" * 31 + "05",           # compressed form whose x has no point (5: x^3-3x+b is no square) or has - either way a verdict
            P256_G + "00"]                     # one byte too many


@obligation(tier="quick", timeout=120,
            bounds="version 2 chain quote <- attestation key <- x509 whose attestation key field is hex but not (necessarily) a P-256 "
                   "point: 6 catalogue values (symbolic selection); element verdict symbolic: the document is refused when loading, or "
                   "it loads, validates to a verdict and survives save / load",
            examples=[(0, dict(i=i, verdict=False)) for i in range(len(BAD_KEYS))])
def key_not_a_point(i: int, verdict: bool) -> bool:
    """
    pre: 0 <= i < len(BAD_KEYS)
    post: _
    """
    root = {"name": "quoting_enclave", "type": "x509_pem", "message": "QUJD", "signed_by": "sgx_root"}
    e = {"name": "attkey", "type": "sgx_attestation_key", "signed_by": "quoting_enclave", "message": ATTKEY_MSG,
         "key": pick(BAD_KEYS, i), "auth_data": "dd", "signature": "3000"}
    q = {"name": "quote", "type": "sgx_quote", "message": QUOTE_MSG, "custom_data": "cc", "signature": "3000", "signed_by": "attkey"}
    doc = {"version": 2, "targets": ["quote"], "elements": [q, e, root]}
    try:
        return check(doc, verdict, 2)
    except Exception as ex:
        reraise_control_flow(ex)
        note("raised", type(ex).__name__, str(ex)[:200])
        return False


# ------------------------------------------------------------------ spelling of hex fields

SPELL = [lambda h: h, lambda h: h.upper(), lambda h: " ".join(h[i:i + 2] for i in range(0, len(h), 2))]


@obligation(tier="quick", timeout=120,
            bounds="version 1 chain whose target carries a tweak; message / signature / tweak each spelt in lower case, upper case or with "
                   "blanks between the bytes (symbolic); verdict symbolic: load, validate, save, load, validate - same verdicts and the "
                   "same values (the message and tweak strings a verdict carries)",
            examples=[(0, dict(a=0, b=0, c=0, verdict=True)), (0, dict(a=1, b=1, c=1, verdict=True)), (0, dict(a=2, b=0, c=2, verdict=True)),
                      (0, dict(a=0, b=2, c=1, verdict=False))])
def hex_spelling(a: int, b: int, c: int, verdict: bool) -> bool:
    """
    pre: 0 <= a <= 2 and 0 <= b <= 2 and 0 <= c <= 2
    post: _
    """
    e0 = {"name": "device", "signed_by": "root", "message": pick(SPELL, a)("aabbcc"), "signature": pick(SPELL, b)("3000ab"),
          "tweak": pick(SPELL, c)("ccddee")}
    e1 = {"name": "attestation", "signed_by": "device", "message": pick(SPELL, c)("aabb"), "signature": "3000",
          "tweak": pick(SPELL, a)("0a0b")}
    doc = {"version": 1, "targets": ["attestation", "device"], "elements": [e0, e1]}
    try:
        return check(doc, verdict, 1)
    except Exception as ex:
        reraise_control_flow(ex)
        note("raised", type(ex).__name__, str(ex)[:200])
        return False


# ------------------------------------------------------------------ a target that carries the root's name

RN_SIGNERS = ["root", "other", "self", "dangling"]


@obligation(tier="quick", parts=2, timeout=240, part_names=["version 1", "version 2"],
            bounds="two elements, the second NAMED like the root of trust and listed as target (alone or with the first: symbolic); signer "
                   "of each element symbolic among {root name, the other element, itself, a missing element}; verdict symbolic",
            examples=[(1, dict(s0=0, s1=3, both=False, verdict=True)), (1, dict(s0=1, s1=1, both=True, verdict=True)),
                      (0, dict(s0=0, s1=3, both=False, verdict=True)), (1, dict(s0=0, s1=0, both=False, verdict=False))])
def root_named_target(s0: int, s1: int, both: bool, verdict: bool) -> bool:
    """
    pre: 0 <= s0 <= 3 and 0 <= s1 <= 3
    post: _
    """
    version = 1 + part()
    names = V1_NAMES if version == 1 else V2_NAMES
    rootn = "root" if version == 1 else "sgx_root"
    own = [names[0], rootn]

    def signer(i, k):
        return pick([rootn, own[1 - i], own[i], "nobody"], k)
    els = []
    for i, k in ((0, s0), (1, s1)):
        el = {"message": "aabb", "signature": "3000"} if version == 1 else \
            {"type": "sgx_quote", "message": QUOTE_MSG, "custom_data": "cc", "signature": "3000"}
        el["name"] = own[i]
        el["signed_by"] = signer(i, k)
        els.append(el)
    doc = {"version": version, "targets": [own[0], rootn] if both else [rootn], "elements": els}
    try:
        return check(doc, verdict, version)
    except Exception as ex:
        reraise_control_flow(ex)
        note("raised", type(ex).__name__, str(ex)[:200])
        return False
