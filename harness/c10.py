"""C10 The PIN kept on disk always opens the device.

Real ledger.pin.FileBasedPin / BasePin + the real change protocol in _handle_bootloader + real
new_pin / unlock of both platforms, over (a) an in-memory file model bound to `open` /
`os.path.isfile` inside ledger.pin, with a symbolic FAULT index (which file operation fails) and
a symbolic CRASH index (after which file/device operation the process dies), (b) the simulated
device whose reaction to the new PIN is symbolic.
"""
import string

from harness.common import obligation, part, known, reraise_control_flow, note, NULL_LOGGER
from harness.world import make_stack
from sim.base import blist
from sim.ledger import SimDevice

import ledger.pin as pinmod

ALNUM = string.ascii_letters + string.digits
PATH = "/pin/file"
DEFAULT_PIN = b"dflt1234"
FILE_PIN = b"File5678"
NEW_PINS = [b"Zyxw9876", b"Abcd2345"]


class Crash(BaseException):
    """The process dies here: nothing after this point has any effect."""


class UnmodelledOs(BaseException):
    """ledger.pin used an `os` function the in-memory file system does not model: the harness must be extended (never a silent pass)."""


class Env:
    """In-memory file system + operation counter shared with the device (for crash positions).  `content` is the PIN file."""
    def __init__(self, content, fault_op, crash_after):
        self.files = {}                 # path -> bytes
        if content is not None:
            self.files[PATH] = content
        self.fault_op = fault_op        # index of the FILE operation that raises OSError (-1: none)
        self.crash_after = crash_after  # the process dies right after this many operations (file + device); -1: never
        self.file_ops = 0
        self.ops = 0
        self.crashed = False
        self.trace = []

    @property
    def content(self):
        return self.files.get(PATH)     # None = no file

    def step(self, name):
        """Called at the start of every file / device operation."""
        if self.crashed:
            raise Crash()
        if self.crash_after >= 0 and self.ops >= self.crash_after:
            self.crashed = True
            raise Crash()
        self.ops += 1
        self.trace.append(name)

    def file_op(self, name):
        self.step(name)
        i = self.file_ops
        self.file_ops += 1
        if i == self.fault_op:
            raise OSError("injected failure of file operation %d (%s)" % (i, name))

    # --- what ledger.pin sees
    def isfile(self, path):
        self.file_op("isfile")
        return path in self.files

    def open(self, path, mode="r"):
        self.file_op("open-" + ("w" if ("w" in mode or "a" in mode or "x" in mode) else "r"))
        if "x" in mode and path in self.files:
            raise FileExistsError(path)
        if "w" in mode or "x" in mode:
            self.files[path] = b""          # opening for writing truncates
        elif "a" in mode:
            self.files.setdefault(path, b"")
        elif path not in self.files:
            raise FileNotFoundError(path)
        return _Handle(self, path, mode)

    def remove(self, path):
        self.file_op("remove")
        if path not in self.files:
            raise FileNotFoundError(path)
        del self.files[path]

    def rename(self, src, dst):
        self.file_op("rename")
        if src not in self.files:
            raise FileNotFoundError(src)
        self.files[dst] = self.files.pop(src)      # atomic


class _Handle:
    def __init__(self, env, path, mode):
        self.env = env
        self.path = path
        self.text = "b" not in mode

    def __enter__(self):
        return self

    def __exit__(self, *a):
        self.close()
        return False

    def close(self):
        if not self.env.crashed:
            self.env.file_op("close")

    def read(self):
        self.env.file_op("read")
        c = self.env.files[self.path]
        return c.decode() if self.text else c

    def write(self, b):
        self.env.file_op("write")
        self.env.files[self.path] = self.env.files.get(self.path, b"") + (b.encode() if isinstance(b, str) else bytes(b))

    def flush(self):
        pass

    def fileno(self):
        return 3

    def truncate(self, n=0):
        self.env.file_op("truncate")
        self.env.files[self.path] = self.env.files.get(self.path, b"")[:n]


class _OsPath:
    def __init__(self, env):
        self.env = env

    def isfile(self, p):
        return self.env.isfile(p)

    def exists(self, p):
        return self.env.isfile(p)

    def __getattr__(self, name):
        import os
        if name in ("join", "dirname", "basename", "abspath", "normpath", "split", "splitext", "sep"):
            return getattr(os.path, name)
        raise UnmodelledOs("os.path." + name)


class _Os:
    def __init__(self, env):
        self.env = env
        self.path = _OsPath(env)

    def remove(self, p):
        return self.env.remove(p)

    unlink = remove

    def rename(self, a, b):
        return self.env.rename(a, b)

    replace = rename

    def fsync(self, fd):
        pass

    def __getattr__(self, name):
        import os
        if name in ("sep", "linesep", "getpid", "error", "fspath", "O_RDONLY", "O_WRONLY", "O_CREAT", "O_TRUNC", "environ"):
            return getattr(os, name)
        raise UnmodelledOs("os." + name)


class _Random:
    """random inside ledger.pin: the sequence of choices is given by the harness."""
    def __init__(self, picks):
        self.picks = list(picks)
        self.i = 0

    def seed(self, *a):
        pass

    def choice(self, seq):
        v = self.picks[self.i % len(self.picks)]
        self.i += 1
        return seq[v % len(seq)]


def policy_ok(pin):
    """Device policy (statement): 8 alphanumeric characters, at least one letter."""
    if type(pin) is not bytes or len(pin) != 8:
        return False
    letter = False
    for c in pin:
        if not ((48 <= c <= 57) or (65 <= c <= 90) or (97 <= c <= 122)):
            return False
        if (65 <= c <= 90) or (97 <= c <= 122):
            letter = True
    return letter


def install(env, picks):
    pinmod.open = env.open
    pinmod.os = _Os(env)
    pinmod.random = _Random(picks)


def uninstall():
    import os
    import random
    pinmod.os = os
    pinmod.random = random
    if "open" in pinmod.__dict__:
        del pinmod.open


class PinDevice(SimDevice):
    """Bootloader-mode device with a real PIN: unlock succeeds iff the presented PIN is the device's."""
    def __init__(self, env, actual_pin):
        super().__init__()
        self.env = env
        self.mode = 2
        self.actual_pin = list(actual_pin)
        self.mode_after_exit = 3

    def handle(self, apdu):
        self.env.step("apdu-%02x" % blist(apdu)[1])
        a = blist(apdu)
        cmd, data = a[1], a[2:]
        if cmd == 0xFE:     # Ledger unlock
            presented = [self.pin_buffer[i] for i in sorted(self.pin_buffer)]
            self.unlock_ok = 1 if presented == self.actual_pin else 0
        if cmd == 0xA3:     # SGX unlock
            self.unlock_ok = 1 if data[1:] == self.actual_pin else 0
        r = SimDevice.handle(self, apdu)
        if cmd in (0x08, 0xA5) and self.device_pin is not None:
            self.actual_pin = list(self.device_pin)   # acknowledged change
            self.device_pin = None
            self.acked = True
        return r

    acked = False


REACTIONS = ["ack", "refuse", "sw", "write", "read", "timeout"]
STARTS = [("file", False), ("file", True), ("absent", False), ("absent", True)]
STEP_PARTS = [(pl, st, re) for pl in ("ledger", "sgx") for st in range(len(STARTS)) for re in range(len(REACTIONS))]


def start_manager(env, platform, device, force):
    """One manager start: load the PIN, bring the device up.  Returns a dict of observations."""
    obs = {"pin_error": False, "returned": False, "pin_in_use": None, "new_offered": []}
    try:
        pin = pinmod.FileBasedPin(PATH, DEFAULT_PIN, force_change=force)
    except pinmod.PinError:
        obs["pin_error"] = True
        return obs
    except Crash:
        return obs
    pin.logger = NULL_LOGGER
    obs["pin_in_use"] = pin.get_pin()
    proto, dongle, world = make_stack(device, platform=platform, pin=pin, connect=False)
    try:
        proto.initialize_device()
        obs["returned"] = True
    except Crash:
        pass
    except Exception as e:
        reraise_control_flow(e)
        obs["raised"] = type(e).__name__
    obs["pin_after"] = pin.get_pin()
    obs["new_offered"] = [bytes(p) for p in device.newpin_offered]
    return obs


@obligation(tier="quick", parts=len(STEP_PARTS), timeout=120,
            part_names=lambda i: "%s/%s%s/device-%s" % (STEP_PARTS[i][0], STARTS[STEP_PARTS[i][1]][0],
                                                        "+forced" if STARTS[STEP_PARTS[i][1]][1] else "",
                                                        REACTIONS[STEP_PARTS[i][2]]),
            bounds="history: start (PIN file present / absent, forced change or not) -> bring-up with unlock -> [change attempt] -> restart "
                   "-> bring-up; partitions: platform {Ledger, SGX} x start state x device reaction to the new PIN {ack, refuse, other "
                   "status, write error, read error, time-out}; symbolic: index of the failing file operation (-1..11), crash position "
                   "(-1..40, after that many file/device operations the process dies)",
            examples=[(0, dict(fault=-1, crash=-1)), (13, dict(fault=-1, crash=-1)), (1, dict(fault=-1, crash=-1)),
                      (6, dict(fault=-1, crash=-1)), (0, dict(fault=0, crash=-1)), (30, dict(fault=-1, crash=5)),
                      (18, dict(fault=2, crash=-1))])
def change_history(fault: int, crash: int) -> bool:
    """
    pre: -1 <= fault <= 11
    pre: -1 <= crash <= 40
    post: _
    """
    platform, sti, rei = STEP_PARTS[part()]
    start, force = STARTS[sti]
    reaction = REACTIONS[rei]
    content0 = FILE_PIN if start == "file" else None
    env = Env(content0, fault, crash)
    install(env, [25, 24, 23, 22, 61, 60, 59, 58])     # 'Zyxw9876'
    try:
        device = PinDevice(env, FILE_PIN if start == "file" else DEFAULT_PIN)
        device.newpin_reaction = reaction
        pin0 = bytes(device.actual_pin)
        o1 = start_manager(env, platform, device, force)
        ok = True
        # (3) every PIN offered to the device satisfies the policy
        for p in o1["new_offered"]:
            if not policy_ok(p):
                ok = False
        attempted = len(o1["new_offered"]) > 0
        acked = device.acked
        # (4) after any change attempt the manager stops instead of carrying on
        if attempted and o1["returned"]:
            ok = False
        # (1) the file changes only after the device acknowledged, and then holds exactly that PIN
        changed = env.content != content0
        if changed and not (acked and env.content == bytes(device.actual_pin)):
            ok = False
        # (2) refused / failed / aborted change leaves the file and the PIN in use untouched
        if not acked:
            if env.content != content0:
                ok = False
            if o1.get("pin_after") is not None and o1["pin_after"] != o1["pin_in_use"]:
                ok = False
            if bytes(device.actual_pin) != pin0:
                ok = False
        # (5) at every moment a PIN that unlocks the device can be recovered from the file or the default
        actual = bytes(device.actual_pin)
        recoverable = (env.content is not None and env.content.strip() == actual) or \
            (env.content is None and DEFAULT_PIN == actual)
        if not recoverable:
            ok = False
        # ... and the restart actually unlocks with it (no faults, no crash this time)
        if ok:
            env2 = Env(env.content, -1, -1)
            install(env2, [1, 2, 3, 4, 5, 6, 7, 8])
            device2 = PinDevice(env2, actual)
            device2.retries = 3
            o2 = start_manager(env2, platform, device2, False)
            if o2["pin_error"] or device2.unlock_pins != [list(actual)]:
                ok = False
            # a PIN file written by the manager never triggers another change: the manager serves
            if env.content is not None and not o2["returned"]:
                ok = False
        # known finding: the device acknowledged, then a file operation of the commit failed or the process died
        # before the new PIN was completely on disk (the listed class requires an injected fault or crash)
        return ok or known("C10-ack-then-lost", acked and (fault >= 0 or crash >= 0) and env.content != actual)
    finally:
        uninstall()


# ------------------------------------------------------------------ policy and generator

POLICY_PARTS = [("len", n, i) for n in (7, 8, 9) for i in range(n)] + [("any", 8, i) for i in range(8)] + \
    [("short", n, 0) for n in range(0, 7)] + [("nonbytes", 0, 0)]


@obligation(tier="quick", parts=len(POLICY_PARTS), timeout=120,
            part_names=lambda k: "%s/len%d/pos%d" % POLICY_PARTS[k],
            bounds="BasePin.is_valid vs the policy oracle: PIN length 0..9, one position at a time holds a symbolic byte 0..255 (every "
                   "position, partition), the others a symbolic choice of all-letters / all-digits; any_pin flag; non-bytes values",
            examples=[(8, dict(a=65, fill=1)), (8, dict(a=49, fill=1)), (10, dict(a=95, fill=0)), (0, dict(a=65, fill=0)),
                      (16, dict(a=65, fill=0)), (24, dict(a=33, fill=0)), (len(POLICY_PARTS) - 1, dict(a=0, fill=0)),
                      (33, dict(a=65, fill=1))])
def pin_policy(a: int, fill: int) -> bool:
    """
    pre: 0 <= a <= 255
    pre: 0 <= fill <= 1
    post: _
    """
    kind, n, i = POLICY_PARTS[part()]
    if kind == "nonbytes":
        vals = ["abcd1234", None, 12345678, [97] * 8, bytearray(b"abcd1234")]
        return all(pinmod.BasePin.is_valid(v) is False for v in vals)
    lst = [(0x61 if fill == 0 else 0x31)] * n
    if i < n:
        lst[i] = a
    pin = bytes(lst)
    if kind == "any":
        # any_pin: only the alphabet is checked
        want = all((48 <= c <= 57) or (65 <= c <= 90) or (97 <= c <= 122) for c in lst)
        return pinmod.BasePin.is_valid(pin, any_pin=True) == want
    return pinmod.BasePin.is_valid(pin) == policy_ok(pin)


@obligation(tier="quick", parts=8, timeout=150, part_names=lambda k: "symbolic draw at position %d" % k,
            bounds="generate_pin with random.choice replaced by harness-chosen indices: one position of the first draw symbolic over all 62 "
                   "characters (every position, partition), the rest digits - so the first draw is invalid unless that character is a "
                   "letter and the generator must draw again",
            examples=[(0, dict(x=0)), (1, dict(x=61)), (7, dict(x=52)), (3, dict(x=26))])
def generated_pin(x: int) -> bool:
    """
    pre: 0 <= x <= 61
    post: _
    """
    p = part()
    first = [52 + k for k in range(8)]            # digits '0'..'7'
    first[p] = x
    second = [52, 53, 54, 55, 56, 57, 58, 0]       # '0123456a': valid
    env = Env(None, -1, -1)
    install(env, first + second)
    try:
        pin = pinmod.BasePin.generate_pin()
    finally:
        uninstall()
    return policy_ok(pin)


# ------------------------------------------------------------------ a PIN change that happens while repairing the connection

@obligation(tier="quick", parts=2, timeout=200, part_names=["ledger", "sgx"],
            bounds="history: start with the device already in the signer and a pending PIN change (no PIN file) -> serving -> link error -> "
                   "the device comes back in the bootloader -> the next request repairs the connection, which unlocks and attempts the change "
                   "(device reaction symbolic among 6, failing file operation symbolic): the manager must stop after the attempt, and the "
                   "file / device PIN stay consistent",
            examples=[(0, dict(rei=0, fault=-1)), (1, dict(rei=1, fault=-1)), (0, dict(rei=4, fault=-1))])
def change_during_reconnect(rei: int, fault: int) -> bool:
    """
    pre: 0 <= rei <= 5
    pre: -1 <= fault <= 5
    post: _
    """
    from harness.world import handle
    from harness.catalog import valid_request
    from sim.base import raise_fault, FAULT_READ
    platform = ["ledger", "sgx"][part()]
    env = Env(None, fault, -1)
    install(env, [25, 24, 23, 22, 61, 60, 59, 58])
    try:
        device = PinDevice(env, DEFAULT_PIN)
        device.mode = 3                      # already in the signer: start-up does not go through the bootloader
        device.newpin_reaction = REACTIONS[rei]
        try:
            pin = pinmod.FileBasedPin(PATH, DEFAULT_PIN, force_change=False)
        except pinmod.PinError:
            return True                      # (a failing file operation at start-up: the manager does not start)
        pin.logger = NULL_LOGGER
        proto, dongle, world = make_stack(device, platform=platform, pin=pin, connect=False)
        proto.initialize_device()
        st = {"armed": True}

        def hook(idx, apdu):
            if st["armed"]:
                st["armed"] = False
                device.mode = 2              # unplugged: comes back locked, in the bootloader
                raise_fault(FAULT_READ)
        world.fault_hook = hook
        if handle(proto, valid_request("getPubKey")) != ("reply", {"errorcode": -905}):
            return False
        out = handle(proto, valid_request("getPubKey"))
        attempted = len(device.newpin_offered) > 0
        ok = True
        if attempted and out != ("raised", "HSM2ProtocolInterrupt"):
            ok = False                       # (4) after any change attempt the manager stops instead of carrying on
        for p in device.newpin_offered:
            if not policy_ok(bytes(p)):
                ok = False
        acked = device.acked
        if env.content is not None and not (acked and env.content == bytes(device.actual_pin)):
            ok = False
        if not acked and (env.content is not None or bytes(device.actual_pin) != DEFAULT_PIN):
            ok = False
        actual = bytes(device.actual_pin)
        return ok or known("C10-ack-then-lost", acked and fault >= 0 and env.content != actual)
    except Exception as e:
        reraise_control_flow(e)
        note("raised", type(e).__name__, str(e)[:200])
        return False
    finally:
        uninstall()
