"""C11 Link failures get a device-error reply and are repaired on the next request.

History = request 1 (link fault of kind `kind` at exchange k) -> request 2 (repair, per `scenario`)
-> request 3.. ; all on ONE real protocol object over the fault-injecting simulated transport.
"""
from harness.common import obligation, part
from harness.world import make_stack, handle
from harness.catalog import valid_request
from sim.base import raise_fault, blist, comm_exception, FAULT_TIMEOUT, FAULT_WRITE, FAULT_READ
import harness.c04 as c04

# (command, variant, name, v1)
CASES = [(c, v, n, False) for (c, v, n) in c04.CASES[:c04.N_QUICK]] + [
    ("sign", 1, "v1-sign-hash", True),
    ("getPubKey", 0, "v1-getPubKey", True),
]


def _kmax(i):
    cmd, var, name, v1 = CASES[i]
    d = c04._device(cmd)
    proto, dongle, world = make_stack(d, v1=v1)
    r = handle(proto, _request(i))
    # (sizes the partitions only; a fault-free run that fails is C04's subject - harness.c04.fault_free)
    return max(1, world.exchanges)


def _request(i):
    cmd, var, name, v1 = CASES[i]
    r = valid_request(cmd, var, version=1 if v1 else 5)
    if v1 and cmd == "sign":
        r["message"] = r["message"]["hash"]
    return r


_KMAX = [_kmax(i) for i in range(len(CASES))]
PARTS = [(i, k) for i in range(len(CASES)) for k in range(_KMAX[i])]
KINDS = [FAULT_WRITE, FAULT_READ, FAULT_TIMEOUT]
import os
FMAX = 1 if os.environ.get('VERIF_TIER') == 'thorough' else 0   # follow-up requests: quick 1, thorough 2

BRINGUP = [0x06, 0x43, 0x06, 0x11]   # IS_ONBOARD, GET_MODE, IS_ONBOARD (version), GET_PARAMETERS


def follow_up(f, v1):
    if v1:
        r = valid_request("getPubKey", 1, version=1)
        return r, 0x04
    if f == 0:
        return valid_request("getPubKey", 1), 0x04
    return valid_request("blockchainState"), 0x20


def cmds_of(events):
    """Compact view of a transport log: 'close', 'open', or the APDU command byte."""
    out = []
    for e in events:
        if e[0] == "apdu":
            out.append(blist(e[1])[1])
        else:
            out.append(e[0])
    return out


def repaired_first(view, cmdbyte, need_close=True):
    """close (unless the old connection is already closed), open, full bring-up, and only then the command APDU."""
    if not need_close and view[:1] != ["close"]:
        view = ["close"] + view
    n = 2 + len(BRINGUP)
    # re-open first, then the bring-up exchanges (the statement does not fix their order), then the command
    return view[:2] == ["close", "open"] and sorted(view[2:n], key=str) == sorted(BRINGUP, key=str) and len(view) > n \
        and view[n] == cmdbyte


@obligation(tier="quick", parts=len(PARTS), timeout=150,
            part_names=lambda p: "%s@exchange%d" % (CASES[PARTS[p][0]][2], PARTS[p][1]),
            bounds="per (command, exchange) partition: fault kind in {write error, read error, time-out} x follow-up "
                   "request (2) x reconnection scenario (ok | connect fails 1..2 times then ok | a second fault "
                   "{write, read, time-out} at bring-up exchange GET_MODE / version / parameters); both protocol modes",
            examples=[(0, dict(kindi=0, follow=0, scenario=0)), (0, dict(kindi=2, follow=0, scenario=0)),
                      (12, dict(kindi=1, follow=0, scenario=2)), (24, dict(kindi=0, follow=0, scenario=5)),
                      (13, dict(kindi=1, follow=0, scenario=11))])
def link_fault(kindi: int, follow: int, scenario: int) -> bool:
    """
    pre: 0 <= kindi <= 2
    pre: 0 <= follow <= FMAX
    pre: 0 <= scenario <= 11
    post: _
    """
    i, k = PARTS[part()]
    cmd, var, name, v1 = CASES[i]
    kind = KINDS[kindi]
    DEVERR = -2 if v1 else -905
    d = c04._device(cmd)
    proto, dongle, world = make_stack(d, v1=v1)
    st = {"armed": True, "apdu": None, "fault2": None}

    def hook(idx, apdu):
        if st["armed"] and idx == k:
            st["armed"] = False
            st["apdu"] = apdu
            raise_fault(kind)
        f2 = st["fault2"]
        if f2 is not None and idx == f2[0]:
            st["fault2"] = None
            raise_fault(f2[1])
    world.fault_hook = hook
    out1 = handle(proto, _request(i))
    if st["armed"]:
        return True     # k beyond the exchanges performed
    a = blist(st["apdu"])
    if cmd == "uiHeartbeat" and a[1] == 0xFF and kind != FAULT_TIMEOUT:
        return True     # exit exchanges: a link error is the expected outcome (USB re-enumeration); excluded
    if out1 != ("reply", {"errorcode": DEVERR}):
        return False
    # the device may have been left in another mode by an interrupted uiHeartbeat: put it back
    d.mode = 0x03
    d.mode_after_exit = None
    cmdbyte = follow_up(follow, v1)[1]

    def req2():
        return follow_up(follow, v1)[0]   # fresh dict: validation rewrites request['keyId'] in place
    if kind == FAULT_TIMEOUT:
        # no repair after a time-out: the next request goes straight to the device and is answered
        mark = len(world.log)
        out2 = handle(proto, req2())
        view = cmds_of(world.log[mark:])
        return out2[0] == "reply" and out2[1].get("errorcode") == 0 and view[0] == cmdbyte \
            and "close" not in view and "open" not in view
    # ---- link failure: request 2 must repair first
    if scenario == 0:
        mark = len(world.log)
        out2 = handle(proto, req2())
        view = cmds_of(world.log[mark:])
        return out2[0] == "reply" and out2[1].get("errorcode") == 0 and repaired_first(view, cmdbyte)
    if scenario <= 2:
        fails = {"n": scenario}

        def connect_hook():
            if fails["n"] > 0:
                fails["n"] -= 1
                raise comm_exception("No dongle found", 0x6F00)
        world.connect_hook = connect_hook
        for _ in range(scenario):
            mark = len(world.log)
            out = handle(proto, req2())
            view = cmds_of(world.log[mark:])
            # device error again, and no command APDU went out on the dead link
            if out != ("reply", {"errorcode": DEVERR}) or cmdbyte in view:
                return False
        mark = len(world.log)
        out = handle(proto, req2())
        view = cmds_of(world.log[mark:])
        return out[0] == "reply" and out[1].get("errorcode") == 0 and repaired_first(view, cmdbyte, need_close=False)
    # ---- a second fault during the repair's bring-up (exchange j of the bring-up, kind2)
    j = 1 + (scenario - 3) // 3
    kind2 = KINDS[(scenario - 3) % 3]
    st["fault2"] = (world.exchanges + j, kind2)
    mark = len(world.log)
    out2 = handle(proto, req2())
    view = cmds_of(world.log[mark:])
    if out2 != ("reply", {"errorcode": DEVERR}) or cmdbyte in view:
        return False
    mark = len(world.log)
    out3 = handle(proto, req2())
    view = cmds_of(world.log[mark:])
    return out3[0] == "reply" and out3[1].get("errorcode") == 0 and repaired_first(view, cmdbyte)


# ------------------------------------------------------------------ every command as the request that has to repair

FOLLOW_CASES = list(range(len(CASES)))


@obligation(tier="quick", parts=len(CASES), timeout=200,
            part_names=lambda p: "repairing request: %s" % CASES[p][2],
            bounds="a write / read error (symbolic) on a getPubKey, then EVERY command (partition, both protocol modes) as the next request "
                   "while the reconnection fails 0..2 times (symbolic): -905 / -2 and no command APDU each time it fails, then the "
                   "repair (re-open, full bring-up) before the command's first APDU",
            examples=[(0, dict(kindi=0, fails=1)), (10, dict(kindi=1, fails=2)), (4, dict(kindi=0, fails=0)), (12, dict(kindi=1, fails=1))])
def repair_by_any_command(kindi: int, fails: int) -> bool:
    """
    pre: 0 <= kindi <= 1
    pre: 0 <= fails <= 2
    post: _
    """
    i = part()
    cmd, var, name, v1 = CASES[i]
    DEVERR = -2 if v1 else -905
    d = c04._device(cmd)
    proto, dongle, world = make_stack(d, v1=v1)
    st = {"armed": True}

    def hook(idx, apdu):
        if st["armed"]:
            st["armed"] = False
            raise_fault(KINDS[kindi])
    world.fault_hook = hook
    first = valid_request("getPubKey", 1, version=1 if v1 else 5)
    if handle(proto, first) != ("reply", {"errorcode": DEVERR}):
        return False
    left = {"n": fails}

    def connect_hook():
        if left["n"] > 0:
            left["n"] -= 1
            raise comm_exception("No dongle found", 0x6F00)
    world.connect_hook = connect_hook
    for _ in range(fails):
        mark = len(world.log)
        out = handle(proto, _request(i))
        view = cmds_of(world.log[mark:])
        if out != ("reply", {"errorcode": DEVERR}) or any(type(c) is int for c in view):
            return False
    mark = len(world.log)
    out = handle(proto, _request(i))
    view = cmds_of(world.log[mark:])
    if out[0] != "reply" or out[1].get("errorcode") != 0:
        return False
    # re-open and the full bring-up come before anything else
    head = (["close"] if fails == 0 else []) + ["open"]
    n = len(head) + len(BRINGUP)
    return view[:len(head)] == head and sorted(view[len(head):n], key=str) == sorted(BRINGUP, key=str) and len(view) > n


# ------------------------------------------------------------------ the link comes back, but the bring-up checks refuse the device

REFUSALS = ["device reports not onboarded", "signer of an unsupported version"]


@obligation(tier="quick", parts=4, timeout=200,
            part_names=lambda p: "%s / %s" % (["v5", "v1"][p // 2], REFUSALS[p % 2]),
            bounds="a write / read error (symbolic) on a getPubKey; the link then re-opens but for `bad` (0..2, symbolic) following requests "
                   "the bring-up finds a device it must not serve from - onboard byte symbolic (any value but 1) or a signer version outside "
                   "5.x <= 5.4.1 (partition) -: each of these requests gets the device-error code, no command APDU goes out, nothing "
                   "propagates out of the request handler; once the device is in order again the repair succeeds (re-open + bring-up) "
                   "before the command; follow-up command symbolic among getPubKey / blockchainState (v1: getPubKey / sign)",
            examples=[(0, dict(kindi=0, bad=1, onb=0, follow=0)), (1, dict(kindi=1, bad=2, onb=7, follow=1)), (2, dict(kindi=0, bad=1, onb=0, follow=1)),
                      (3, dict(kindi=0, bad=0, onb=0, follow=0))])
def repair_bring_up_refused(kindi: int, bad: int, onb: int, follow: int) -> bool:
    """
    pre: 0 <= kindi <= 1
    pre: 0 <= bad <= 2
    pre: 0 <= onb <= 255 and onb != 1
    pre: 0 <= follow <= 1
    post: _
    """
    v1 = part() // 2 == 1
    refusal = part() % 2
    DEVERR = -2 if v1 else -905
    d = c04._device("getPubKey")
    proto, dongle, world = make_stack(d, v1=v1)
    st = {"armed": True}

    def hook(idx, apdu):
        if st["armed"]:
            st["armed"] = False
            raise_fault(KINDS[kindi])
    world.fault_hook = hook
    ver = 1 if v1 else 5
    if handle(proto, valid_request("getPubKey", 1, version=ver)) != ("reply", {"errorcode": DEVERR}):
        return False

    def request():
        if follow == 0:
            return valid_request("getPubKey", 2, version=ver)
        r = valid_request("sign", 1, version=ver) if v1 else valid_request("blockchainState", 0)
        if v1:
            r["message"] = r["message"]["hash"]
        return r
    good = (d.onboarded, d.signer_version)
    for _ in range(bad):
        if refusal == 0:
            d.onboarded = onb
        else:
            d.signer_version = (5, 5, 0)
        mark = len(world.log)
        out = handle(proto, request())
        view = cmds_of(world.log[mark:])
        # device-error reply, the manager keeps running (nothing raised), and no command APDU: only close / open / bring-up queries
        if out != ("reply", {"errorcode": DEVERR}):
            return False
        if any(type(c) is int and c not in BRINGUP for c in view) or "open" not in view:
            return False
    d.onboarded, d.signer_version = good
    mark = len(world.log)
    out = handle(proto, request())
    view = cmds_of(world.log[mark:])
    if out[0] != "reply" or out[1].get("errorcode") != 0:
        return False
    head = ["close", "open"]
    n = len(head) + len(BRINGUP)
    return view[:2] == head and sorted(view[2:n], key=str) == sorted(BRINGUP, key=str) and len(view) > n
