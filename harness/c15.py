"""C15 Attestations gathered from a genuine device verify end to end  -  the PLUMBING between the gathering and the
verifying halves, with the crypto primitives uninterpreted.

ui_paging / powhsm_paging   real HSM2Dongle.get_ui_attestation / PowHsmAttestation.run over the simulated device:
                            page count, page lengths, legacy framing symbolic.
endorsement                 real DongleAdmin.get_device_key / setup_endorsement_key over a simulated admin app.
ledger_certificate          real admin.ledger_attestation.do_attestation: the certificate it writes, loaded back by the
                            real HSMCertificate and validated with C06's token algebra, presents to `verify` exactly
                            the device's message / signature / key / tweak tokens in the roles C06 expects; if ONE
                            item of a device answer is altered (symbolic choice), a different token reaches the
                            verifier - so the verdict is the primitive's.
sgx_certificate             real sgx.envelope.SgxEnvelope + admin.sgx_attestation.do_attestation: the v2 certificate holds
                            the envelope's quote / custom data / signatures (DER) / attestation key / QE auth data / PEM
                            certificates in the roles C07 expects; a message that is not the envelope's tail is refused.
Outside the claim: that ECDSA / SHA-256 / X.509 reject altered data (crypto soundness), real key material.
"""
import os

from harness.common import obligation, part, reraise_control_flow, note
from harness.catalog import pat
from sim.base import World, passthrough, quiet, blist, resp, hexof, REPLAY
from sim.ledger import SimDevice

import ledger.hsm2dongle as h
import admin.certificate_v1 as c1
import admin.ledger_attestation as la
import admin.sgx_attestation as sga
import admin.dongle_admin as da
from admin.certificate import HSMCertificate
from admin.misc import AdminError
import harness.c06 as c06

THOROUGH = os.environ.get("VERIF_TIER") == "thorough"


def enum(x, lo, hi):
    """Concrete value of a symbolic selector by explicit case split (lo..hi)."""
    for k in range(lo, hi + 1):
        if x == k:
            return k
    raise ValueError(x)


def new_dongle(device, bytes_model=True):
    world = World(device)
    world.install(bytes_model=bytes_model)
    d = passthrough(h.HSM2Dongle)(False)
    quiet(d)
    d.connect()
    return d, world


def page(n, seed):
    return [(seed * 16 + i) & 0xff for i in range(n)]


@obligation(tier="quick", timeout=200,
            bounds="UI attestation message in 1..5 pages (symbolic), each page 0..3 bytes (symbolic lengths); 5 pages must be refused",
            examples=[(0, dict(n=1, l0=2, l1=0, l2=0, l3=0)), (0, dict(n=4, l0=1, l1=2, l2=3, l3=0)), (0, dict(n=5, l0=1, l1=1, l2=1, l3=1)),
                      (0, dict(n=2, l0=0, l1=3, l2=0, l3=0))])
def ui_paging(n: int, l0: int, l1: int, l2: int, l3: int) -> bool:
    """
    pre: 1 <= n <= 5
    pre: 0 <= l0 <= 3 and 0 <= l1 <= 3 and 0 <= l2 <= 3 and 0 <= l3 <= 3
    post: _
    """
    d = SimDevice()
    d.mode = 2
    pages = [page([l0, l1, l2, l3, 1][i], i + 1) for i in range(n)]
    d.ui_att = {"app_hash": page(32, 9), "pages": pages, "signature": [0x30, 0x03, 1, 2, 3], "ud": None}
    dongle, world = new_dongle(d)
    ud = pat(32, 5)
    try:
        out = dongle.get_ui_attestation(ud.hex())
    except Exception as e:
        reraise_control_flow(e)
        return n > 4                       # more pages than the UI can produce: gathering fails
    if n > 4:
        return False
    whole = [b for p in pages for b in p]
    return out["message"] == hexof(whole) and out["app_hash"] == hexof(page(32, 9)) \
        and out["signature"] == hexof([0x30, 0x03, 1, 2, 3]) and d.ui_att["ud"] == list(ud) and not world.violations


@obligation(tier="quick", parts=2, timeout=200, part_names=["current framing", "legacy framing"],
            bounds="signer attestation: message in 1..3 pages and envelope in 1..3 pages (symbolic), page lengths 0..3 symbolic; legacy "
                   "signer: one unframed message starting with HSM:SIGNER:, no envelope",
            examples=[(0, dict(nm=1, ne=1, l0=2, l1=0, l2=0)), (0, dict(nm=3, ne=2, l0=1, l1=0, l2=3)), (1, dict(nm=1, ne=1, l0=3, l1=0, l2=0))])
def powhsm_paging(nm: int, ne: int, l0: int, l1: int, l2: int) -> bool:
    """
    pre: 1 <= nm <= 3 and 1 <= ne <= 3
    pre: 0 <= l0 <= 3 and 0 <= l1 <= 3 and 0 <= l2 <= 3
    post: _
    """
    legacy = part() == 1
    d = SimDevice()
    lens = [l0, l1, l2]
    if legacy:
        msg_pages = [list(b"HSM:SIGNER:5.0") + page(l0, 3)]
        env_pages = []
    else:
        msg_pages = [page(lens[i], i + 1) for i in range(nm)]
        env_pages = [page(lens[(i + 1) % 3], i + 7) for i in range(ne)]
    d.pw_att = {"app_hash": page(32, 8), "msg_pages": msg_pages, "env_pages": env_pages, "signature": [0x30, 0x02, 7, 7],
                "legacy": legacy, "ud": None}
    dongle, world = new_dongle(d)
    ud = pat(32, 6)
    try:
        out = dongle.get_powhsm_attestation(ud.hex())
    except Exception as e:
        reraise_control_flow(e)
        return False
    msg = [b for p in msg_pages for b in p]
    env = msg if legacy else [b for p in env_pages for b in p]
    return out["message"] == hexof(msg) and out["envelope"] == hexof(env) and out["app_hash"] == hexof(page(32, 8)) \
        and out["signature"] == hexof([0x30, 0x02, 7, 7]) and d.pw_att["ud"] == list(ud) and not world.violations


# ------------------------------------------------------------------ endorsement setup

class AdminApp:
    def __init__(self, header, devkey, devsig, endokey, endosig):
        self.header, self.devkey, self.devsig, self.endokey, self.endosig = header, devkey, devsig, endokey, endosig
        self.seen = []

    def handle(self, apdu):
        a = blist(apdu)
        self.seen.append(a)
        cmd = a[1]
        if a[0] != 0xE0:
            raise Exception("bad CLA")
        if cmd == 0x52 and a[2] == 0x00:
            return resp([len(self.header)] + self.header + [len(self.devkey)] + self.devkey + [len(self.devsig)] + self.devsig)
        if cmd == 0x52:
            return resp([1, 2, 3])
        if cmd == 0xC0:
            return resp(self.endokey + self.endosig)
        if cmd == 0xC2:
            return resp([])
        raise Exception("unexpected admin command %x" % cmd)


@obligation(tier="quick", timeout=120,
            bounds="device key certificate: header length 0..4, signature length 1..4 symbolic; key / signature bytes tokens with one symbolic byte",
            examples=[(0, dict(hl=2, sl=3, b=7, scheme=2)), (0, dict(hl=0, sl=1, b=255, scheme=1))])
def endorsement(hl: int, sl: int, b: int, scheme: int) -> bool:
    """
    pre: 0 <= hl <= 4 and 1 <= sl <= 4 and 0 <= b <= 255
    pre: 1 <= scheme <= 2
    post: _
    """
    header = page(hl, 1)
    devkey = [4, b] + page(63, 2)
    devsig = page(sl, 3)
    endokey = [4] + page(63, 4) + [b]
    endosig = page(sl + 1, 5)
    app = AdminApp(header, devkey, devsig, endokey, endosig)
    world = World(app)
    world.install()
    saved = da.getDongle
    da.getDongle = world.get_dongle
    try:
        adm = da.DongleAdmin(False)
        adm.connect()
        dk = adm.get_device_key()
        ek = adm.setup_endorsement_key(scheme, b"RSK_ENDORSEMENT_OK")
    except Exception as e:
        reraise_control_flow(e)
        return False
    finally:
        da.getDongle = saved
    # roles C06 expects: device element value = last 65 bytes of the message; attestation element value = message[1:]
    dmsg = bytes.fromhex(dk["message"]) if type(dk["message"]) is str else None
    if dmsg is None:
        return False
    emsg = bytes.fromhex(ek["message"])
    return list(dmsg) == [0x02] + header + devkey and list(dmsg[-65:]) == devkey and dk["signature"] == bytes(devsig).hex() \
        and dk["pubkey"] == bytes(devkey).hex() \
        and list(emsg) == [0xFF] + endokey and list(emsg[1:]) == endokey and ek["signature"] == bytes(endosig).hex() \
        and blist(app.seen[-1])[1] == 0xC2 and blist(app.seen[-1])[5:] == list(b"RSK_ENDORSEMENT_OK")


# ------------------------------------------------------------------ Ledger: gathered certificate presents the device's tokens

class Options:
    output_file_path = "/out/att.json"
    attestation_certificate_file_path = "/in/att.json"
    attestation_ud_source = pat(32, 5).hex()
    verbose = False
    pin = None
    any_pin = False
    no_unlock = True
    no_exec = False


ALTER = ["nothing", "ui message", "ui signature", "ui app hash", "signer message", "signer signature", "signer app hash",
         "signer envelope differs"]


@obligation(tier="quick", parts=16, timeout=240,
            part_names=lambda p: "%s signer framing, altered: %s" % (["current", "legacy"][p % 2], ALTER[p // 2]),
            bounds="one item of the device's answers altered (8 choices incl. none: partition); UI message in 1..4 pages (symbolic); link "
                   "verdicts symbolic; the input certificate is the onboarding one or the full certificate of an earlier attestation (symbolic); "
                   "UD value given as plain / 0x-prefixed hex, with or without zero leading bytes (symbolic)",
            examples=[(0, dict(n=2, vu=True, vs=True, w=False)), (2, dict(n=1, vu=True, vs=True, w=False)),
                      (1, dict(n=4, vu=True, vs=False, w=True)), (14, dict(n=1, vu=True, vs=True, w=False)),
                      (12, dict(n=3, vu=True, vs=True, w=True)), (0, dict(n=1, vu=True, vs=True, w=False, reatt=True, udf=2)),
                      (1, dict(n=2, vu=True, vs=True, w=False, reatt=True, udf=1))])
def ledger_certificate(n: int, vu: bool, vs: bool, w: bool, reatt: bool = False, udf: int = 0) -> bool:
    """
    pre: 1 <= n <= 4
    pre: 0 <= udf <= 3
    post: _
    """
    legacy = part() % 2 == 1
    alter = part() // 2
    n = enum(n, 1, 4)
    if alter != 0:
        reatt, udf = False, 0          # (input certificate / UD form vary in the "nothing altered" partitions only)
    udf = enum(udf, 0, 3)
    # the UD value as the operator gives it: plain hex | 0x-prefixed | 0x-prefixed with zero leading bytes | plain with zero leading bytes
    ud_bytes = [pat(32, 5), pat(32, 5), bytes(2) + pat(30, 6), bytes(1) + pat(31, 7)][udf]
    ud_text = ["", "0x", "0x", ""][udf] + ud_bytes.hex()
    # ---- the genuine device
    att_key = bytes([4]) + pat(64, 50)
    dev_key = bytes([4]) + pat(64, 51)
    onboarding = {"version": 1, "targets": ["attestation"], "elements": [
        {"name": "attestation", "message": (b"\xff" + att_key).hex(), "signature": "3001", "signed_by": "device"},
        {"name": "device", "message": (b"\x02\x01\x02" + dev_key).hex(), "signature": "3002", "signed_by": "root"}]}
    if reatt:
        # the operator passes the full certificate of an EARLIER attestation (other UD value, device state since moved on)
        onboarding["targets"] = ["ui", "signer"]
        onboarding["elements"] = [
            {"name": "ui", "message": (b"HSM:UI:5.4" + pat(12, 90)).hex(), "signature": "3009", "signed_by": "attestation",
             "tweak": pat(32, 91).hex()},
            {"name": "signer", "message": (b"POWHSM:5.4::" + pat(9, 92)).hex(), "signature": "300a", "signed_by": "attestation",
             "tweak": pat(32, 93).hex()}] + onboarding["elements"]
    ui_msg = list(b"HSM:UI:5.4") + page(12, 1)
    ui_sig, ui_hash = [0x30, 0x03], page(32, 2)
    sg_msg = (list(b"HSM:SIGNER:5.4") if legacy else list(b"POWHSM:5.4::")) + page(9, 3)
    sg_sig, sg_hash = [0x31, 0x04], page(32, 4)
    # ---- what the device actually answers (one item possibly altered)
    d = SimDevice()
    d.mode = 2
    d.mode_after_exit = 3
    a_ui_msg = ui_msg[:-1] + [ui_msg[-1] ^ 1] if alter == 1 else ui_msg
    per = max(1, (len(a_ui_msg) + n - 1) // n)
    pages = [a_ui_msg[i:i + per] for i in range(0, len(a_ui_msg), per)]
    d.ui_att = {"app_hash": [ui_hash[0] ^ 1] + ui_hash[1:] if alter == 3 else ui_hash, "pages": pages,
                "signature": [ui_sig[0], ui_sig[1] ^ 1] if alter == 2 else ui_sig, "ud": None}
    a_sg_msg = sg_msg[:-1] + [sg_msg[-1] ^ 1] if alter == 4 else sg_msg
    d.pw_att = {"app_hash": [sg_hash[0] ^ 1] + sg_hash[1:] if alter == 6 else sg_hash, "msg_pages": [a_sg_msg],
                "env_pages": [a_sg_msg + ([9] if alter == 7 else [])], "signature": [sg_sig[0], sg_sig[1] ^ 1] if alter == 5 else sg_sig,
                "legacy": legacy, "ud": None}
    world = World(d)
    world.install(bytes_model=True)
    import sim.base as sb

    class Json:
        JSONDecodeError = ValueError

        def __init__(self):
            self.saved = None

        def loads(self, text):
            return onboarding

        def dumps(self, obj, indent=None):
            self.saved = obj
            return "<json>"

    class F:
        def __enter__(self):
            return self

        def __exit__(self, *a):
            return False

        def read(self):
            return "<text>"

        def write(self, s):
            pass
    js = Json()
    saved = (c1.json, la.get_hsm, la.dispose_hsm, la.do_unlock, la.wait_for_reconnection, la.info, la.head)

    def get_hsm(debug):
        dg = passthrough(h.HSM2Dongle)(False)
        quiet(dg)
        dg.connect()
        return dg
    c1.json = js
    c1.open = lambda path, mode="r": F()
    la.get_hsm = get_hsm
    la.dispose_hsm = lambda hsm: None
    la.do_unlock = lambda *a, **k: None
    la.wait_for_reconnection = lambda: None
    la.info = lambda *a, **k: None
    la.head = lambda *a, **k: None
    sb.REAL_HEX[0] = True        # the gathered hex strings are parsed again by the certificate classes
    opts = Options()
    opts.attestation_ud_source = ud_text
    try:
        try:
            la.do_attestation(opts)
            gathered = True
        except AdminError:
            gathered = False
        except Exception as e:
            reraise_control_flow(e)
            return False
    finally:
        sb.REAL_HEX[0] = False
        c1.json, la.get_hsm, la.dispose_hsm, la.do_unlock, la.wait_for_reconnection, la.info, la.head = saved
        if "open" in c1.__dict__:
            del c1.open
    if legacy and alter == 7:
        alter_effective = 0          # a legacy signer has no envelope: nothing was altered
    else:
        alter_effective = alter
    if alter_effective == 7:
        return not gathered            # message and envelope differ: gathering must fail
    if not gathered or js.saved is None:
        return False
    # the device was asked with exactly the operator's UD value (32 bytes), for both attestations
    if bytes(d.ui_att["ud"] or b"") != ud_bytes or bytes(d.pw_att["ud"] or b"") != ud_bytes:
        return False
    # ---- verification half: load what was written, validate with the token algebra of C06
    cw = c06.CryptoWorld(4)
    cw.w = w

    def tweaked(kid, tweak):
        return ("tweaked", kid, ("hmac", bytes(tweak), ("ser", kid, False)))
    root = c06.ROOT_KEY
    cw.right[(("key", root), b"\x02\x01\x02" + dev_key, ("sig", bytes.fromhex("3002")))] = 0
    cw.right[(("key", dev_key), b"\xff" + att_key, ("sig", bytes.fromhex("3001")))] = 1
    cw.right[(tweaked(("key", att_key), ui_hash), bytes(ui_msg), ("sig", bytes(ui_sig)))] = 2
    cw.right[(tweaked(("key", att_key), sg_hash), bytes(sg_msg), ("sig", bytes(sg_sig)))] = 3
    cw.v = [True, True, vu, vs]
    sv = c06.install(cw)
    try:
        cert = HSMCertificate(js.saved)
        res = cert.validate_and_get_values(c1.HSMCertificateRoot(root.hex()))
    except Exception as e:
        reraise_control_flow(e)
        return False
    finally:
        c06.uninstall(sv)
    ui_alt = alter_effective in (1, 2, 3)
    sg_alt = alter_effective in (4, 5, 6)
    want_ui = (w if ui_alt else vu)
    want_sg = (w if sg_alt else vs)
    ok = sorted(res.keys()) == ["signer", "ui"]
    g = res.get("ui")
    if want_ui:
        ok = ok and g is not None and g[0] is True and g[1] == bytes(a_ui_msg).hex() and g[2] == bytes(d.ui_att["app_hash"]).hex()
    else:
        ok = ok and g == (False, "ui")
    g = res.get("signer")
    if want_sg:
        ok = ok and g is not None and g[0] is True and g[1] == bytes(a_sg_msg).hex() and g[2] == bytes(d.pw_att["app_hash"]).hex()
    else:
        ok = ok and g == (False, "signer")
    return ok


# ------------------------------------------------------------------ SGX: envelope -> v2 certificate

P256_GX = bytes.fromhex("6b17d1f2e12c4247f8bce6e563a440f277037d812deb33a0f4a13945d898c296")
P256_GY = bytes.fromhex("4fe342e2fe1a7f9b8ee7eb4a7c0f9e162bce33576b315ececbb6406837bf51f5")
PEMS = [b"-----BEGIN CERTIFICATE-----\nQUFBQQ==\n-----END CERTIFICATE-----\n",
        b"-----BEGIN CERTIFICATE-----\nQkJCQg==\n-----END CERTIFICATE-----\n",
        b"-----BEGIN CERTIFICATE-----\nQ0NDQw==\n-----END CERTIFICATE-----\n"]
RS = [(bytes([1]) * 32, bytes([2]) * 32), (bytes([0x80]) + bytes(31), bytes([0xff]) * 32), (bytes(31) + bytes([5]), bytes(31) + bytes([0x80]))]


def der_int(b):
    v = int.from_bytes(b, "big")
    raw = v.to_bytes(max(1, (v.bit_length() + 7) // 8), "big")
    if raw[0] & 0x80:
        raw = b"\x00" + raw
    return b"\x02" + bytes([len(raw)]) + raw


def der_sig(r, s):
    body = der_int(r) + der_int(s)
    return b"\x30" + bytes([len(body)]) + body


@obligation(tier="quick", timeout=240,
            bounds="QE auth data size symbolic among {0, 1, 3, 32, 1000}; PEM chain of 2 or 3 certificates (symbolic); r/s values of both "
                   "signatures symbolic among 3 (small, high bit set, leading zeros); custom message equals the envelope's tail or not",
            examples=[(0, dict(ai=0, npem=2, rs1=0, rs2=1, tail_ok=True)), (0, dict(ai=4, npem=3, rs1=2, rs2=0, tail_ok=True)),
                      (0, dict(ai=1, npem=2, rs1=1, rs2=2, tail_ok=False))])
def sgx_certificate(ai: int, npem: int, rs1: int, rs2: int, tail_ok: bool) -> bool:
    """
    pre: 0 <= ai <= 4
    pre: 2 <= npem <= 3
    pre: 0 <= rs1 <= 2 and 0 <= rs2 <= 2
    post: _
    """
    from sim.base import c_boundary

    def body(ai, npem, rs1, rs2, tail_ok):
        auth = pat([0, 1, 3, 32, 1000][ai], 9)
        quote = pat(432, 1)
        tail = (64 * 4 + 384).to_bytes(4, "little")
        (r1, s1), (r2, s2) = RS[rs1], RS[rs2]
        qe_rb = pat(384, 2)
        authdata = r1 + s1 + P256_GX + P256_GY + qe_rb + r2 + s2
        qead = len(auth).to_bytes(2, "little") + auth
        certs = b"".join(PEMS[:npem])
        qecd = (5).to_bytes(2, "little") + len(certs).to_bytes(4, "little") + certs
        custom = b"POWHSM:5.4::" + pat(40, 3)
        envelope = quote + tail + authdata + qead + qecd + custom
        message = custom if tail_ok else custom[:-1] + b"\x00"

        class Hsm:
            def get_powhsm_attestation(self, ud):
                return {"envelope": envelope.hex(), "message": message.hex(), "app_hash": "00", "signature": "00"}

            def disconnect(self):
                pass
        import admin.certificate_v1 as cv1

        class Json:
            JSONDecodeError = ValueError
            saved = None

            @staticmethod
            def dumps(obj, indent=None):
                Json.saved = obj
                return "<json>"

        class F:
            def __enter__(self):
                return self

            def __exit__(self, *a):
                return False

            def write(self, s):
                pass
        saved = (sga.get_hsm, sga.do_unlock, sga.info, sga.head, cv1.json)
        sga.get_hsm = lambda v: Hsm()
        sga.do_unlock = lambda *a, **k: None
        sga.info = lambda *a, **k: None
        sga.head = lambda *a, **k: None
        cv1.json = Json
        cv1.open = lambda p, mode="r": F()
        try:
            try:
                sga.do_attestation(Options())
                ok = True
            except AdminError:
                ok = False
        finally:
            sga.get_hsm, sga.do_unlock, sga.info, sga.head, cv1.json = saved
            if "open" in cv1.__dict__:
                del cv1.open
        if not tail_ok:
            return not ok
        if not ok:
            return False
        doc = Json.saved
        els = {e["name"]: e for e in doc["elements"]}
        want = {
            "quote": {"name": "quote", "type": "sgx_quote", "message": quote.hex(), "custom_data": custom.hex(),
                      "signature": der_sig(r1, s1).hex(), "signed_by": "attestation"},
            "attestation": {"name": "attestation", "type": "sgx_attestation_key", "message": qe_rb.hex(),
                            "key": (b"\x04" + P256_GX + P256_GY).hex(), "auth_data": auth.hex(),
                            "signature": der_sig(r2, s2).hex(), "signed_by": "quoting_enclave"},
            "quoting_enclave": {"name": "quoting_enclave", "type": "x509_pem", "message": "QUFBQQ==", "signed_by": "platform_ca"},
            "platform_ca": {"name": "platform_ca", "type": "x509_pem", "message": "QkJCQg==", "signed_by": "sgx_root"},
        }
        # every expected field is there with the expected value (additional fields would not matter to the verifier)
        for name, w in want.items():
            g = els.get(name)
            if g is None or any(g.get(k) != v for k, v in w.items()):
                return False
        return doc["version"] == 2 and doc["targets"] == ["quote"]
    return c_boundary(body)(enum(ai, 0, 4), enum(npem, 2, 3), enum(rs1, 0, 2), enum(rs2, 0, 2), True if tail_ok else False)


# ------------------------------------------------------------------ the verifying half reads what the gathering half wrote

@obligation(tier="quick", parts=2, timeout=200, part_names=["current signer framing", "legacy signer framing"],
            bounds="the first byte of the UD value / of the operator's keys hash position - i.e. the byte that follows the delimiter-less "
                   "message header HSM:UI:5.4 - symbolic over 0x2c..0x3d (all ASCII digits and their neighbours), 0 and 255: a genuine message is accepted "
                   "by the real verify command and the printed UD value is the device's",
            examples=[(0, dict(b0=0x37)), (1, dict(b0=0x30)), (0, dict(b0=0x00)), (1, dict(b0=0xff))])
def verify_reads_gathered(b0: int) -> bool:
    """
    pre: 0x2c <= b0 <= 0x3d or b0 == 0 or b0 == 255
    post: _
    """
    import harness.c08 as c08
    import admin.verify_ledger_attestation as vl
    b0 = enum(b0, 0, 255)
    legacy = part() == 1
    ud = bytes([b0]) + pat(31, 1)
    ui_key = b"\x02" + c08.key_of(0)[1:33]
    ui_msg = c08.ui_message(b"HSM:UI:5.4", ui_key, ud=ud)
    khash = c08.operator_hash()
    if legacy:
        sg_msg = b"HSM:SIGNER:5.4" + khash
    else:
        sg_msg = b"POWHSM:5.4::" + c08.powhsm_body(khash, 0)
    result = {"ui": (True, ui_msg.hex(), pat(32, 7).hex()), "signer": (True, sg_msg.hex(), pat(32, 8).hex())}
    with c08.Env(c08.pubkeys_doc(0), result, True) as env:
        res = c08.run(vl.do_verify_attestation)
        printed = "\n".join(str(x) for x in env.printed)
    return res == "ok" and ("UD value: " + ud.hex()) in printed and ("Authorized signer hash: " + pat(32, 2).hex()) in printed
