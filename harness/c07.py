"""C07 An SGX attestation is accepted only if the whole quote-to-root chain verifies.

Real admin.certificate_v2 element classes + the shared chain walk of certificate_v1, with `x509`, `ec`, `ecdsa`
and `datetime` inside admin.certificate_v2 replaced by a token algebra (hashlib stays real: the data it hashes is
concrete).  Symbolic: validity window (not-before, not-after) of every X.509 element AND the current time as
integers; issuer-signature verdict per X.509 element; P-256-or-not of the certifying certificate's key; for the
attestation key and the quote: signature verdict and where the binding hash sits in the 64-byte report data
(prefix | second half | nowhere).  One more symbolic verdict `w` answers every verification that is asked
about anything but the right (key, data, signature) triple.  X.509 chain depth 1..3 is a partition.
"""
import hashlib

from harness.common import obligation, part, reraise_control_flow
from harness.catalog import pat

import admin.certificate_v2 as c2
from admin.certificate import HSMCertificate

REPORT_DATA_OFFSET = 16 + 4 + 12 + 16 + 16 + 32 + 32 + 32 + 32 + 64 + 2 + 2 + 2 + 42 + 16   # = 320 (sgx_report_body_t)
QUOTE_HEADER = 2 + 2 + 4 + 2 + 2 + 16 + 20                                                     # = 48  (sgx_quote_t)
assert REPORT_DATA_OFFSET == 320 and QUOTE_HEADER == 48


class SECP256R1:
    pass


class OtherCurve:
    pass


class _EcStub:
    SECP256R1 = SECP256R1

    @staticmethod
    def ECDSA(algo):
        return ("ecdsa", algo)


class World:
    def __init__(self):
        self.certs = {}       # pem bytes -> TokCert
        self.right = {}       # triple -> verdict
        self.w = False
        self.now = 0
        self.asked = []

    # x509 module
    def load_pem_x509_certificate(self, pem):
        return self.certs[bytes(pem)]

    # ecdsa module
    NIST256p = "P-256"

    class util:
        sigdecode_der = "sigdecode_der"

    @property
    def VerifyingKey(self):
        world = self

        class VK:
            def __init__(self, raw):
                self.raw = bytes(raw)

            @staticmethod
            def from_string(b, curve=None):
                assert curve == "P-256"
                return VK(b)

            def to_string(self, kind="raw"):
                return b"KEY:" + self.raw if kind == "raw" else b"\x04" + self.raw

            def verify_digest(self, sig, digest, sigdecode=None):
                assert sigdecode == "sigdecode_der"
                return world.verdict(("vk", self.raw), bytes(sig), bytes(digest))
        return VK

    def verdict(self, key, sig, data):
        t = (key, sig, data)
        self.asked.append(t)
        if t in self.right:
            return self.right[t]
        return self.w

    # datetime
    def now_fn(self, tz=None):
        return self.now


class _DatetimeStub:
    def __init__(self, world):
        self.world = world

    def now(self, tz=None):
        return self.world.now


class TokPub:
    def __init__(self, world, ident, p256):
        self.world = world
        self.ident = ident
        self.curve = SECP256R1() if p256 else OtherCurve()

    def verify(self, signature, tbs, algo):
        if not self.world.verdict(("x509key", self.ident), bytes(signature), bytes(tbs)):
            raise Exception("InvalidSignature")

    def public_bytes(self, enc, fmt):
        return b"PUB:" + self.ident


class TokCert:
    def __init__(self, world, ident, nb, na, p256=True):
        self.ident = ident
        self.not_valid_before_utc = nb
        self.not_valid_after_utc = na
        self.signature = b"SIG:" + ident
        self.tbs_certificate_bytes = b"TBS:" + ident
        self.signature_hash_algorithm = "sha256"
        self._pub = TokPub(world, ident, p256)

    def public_key(self):
        return self._pub


def pem_of(b64):
    return ("-----BEGIN CERTIFICATE-----" + b64 + "-----END CERTIFICATE-----").encode()


class _NativeBytes:
    """`bytes` inside admin.certificate_v2 (only bytes.fromhex is used there): decode concrete hex natively."""
    @staticmethod
    def fromhex(s):
        from sim.base import _native_fromhex
        return _native_fromhex(s)


class _NativeHashlib:
    @staticmethod
    def sha256(data=b""):
        from sim.base import c_boundary
        return c_boundary(hashlib.sha256)(data)


def install(world):
    saved = (c2.x509, c2.ec, c2.ecdsa, c2.datetime)
    c2.bytes = _NativeBytes
    c2.hashlib = _NativeHashlib
    c2.x509 = world
    c2.ec = _EcStub
    c2.ecdsa = world
    c2.datetime = _DatetimeStub(world)
    return saved


def uninstall(saved):
    c2.x509, c2.ec, c2.ecdsa, c2.datetime = saved
    c2.hashlib = hashlib
    if "bytes" in c2.__dict__:
        del c2.bytes


B64 = ["QUFB", "QkJC", "Q0ND", "RUVF", "RERE"]        # distinct base64 messages for the X.509 elements; the last is the root
XNAMES = ["quoting_enclave", "platform_ca", "intermediate_ca", "root_ca"]
ROOT_B64 = B64[4]
SHADOW_B64 = "WFhY"


def report_body(report_data):
    b = bytearray(pat(384, 77))
    b[REPORT_DATA_OFFSET:REPORT_DATA_OFFSET + 64] = report_data
    return bytes(b)


def place(digest, where):
    """64 bytes of report data: the digest as prefix | only in the second half | nowhere."""
    filler = bytes([0x5a]) * 32
    if where == 0:
        return digest + filler
    if where == 1:
        return filler + digest
    return filler + filler


def _chain(now, nb0, na0, nb1, na1, nb2, na2, nb3, na3, v0, v1, v2, v3, p256, vak, vq, wak, wq, w, now2=5, vtop2=True, second=False,
           shadow=None, tail=0, depth_override=None):
    depth = depth_override if depth_override is not None else part() + 1
    nbs, nas, vs = [nb0, nb1, nb2, nb3][:depth], [na0, na1, na2, na3][:depth], [v0, v1, v2, v3][:depth]
    world = World()
    world.w = w
    world.now = now
    # X.509 elements: index 0 certifies the attestation key, index depth-1 is signed by the root of trust
    for i in range(depth):
        world.certs[pem_of(B64[i])] = TokCert(world, B64[i].encode(), nbs[i], nas[i], p256 if i == 0 else True)
    world.certs[pem_of(ROOT_B64)] = TokCert(world, ROOT_B64.encode(), 0, 0)       # the root of trust itself
    for i in range(depth):
        issuer = B64[i + 1] if i + 1 < depth else ROOT_B64
        world.right[(("x509key", issuer.encode()), b"SIG:" + B64[i].encode(), b"TBS:" + B64[i].encode())] = vs[i]
    # attestation key element
    ak_key = pat(64, 3)
    auth = pat(7, 4)
    ak_digest = hashlib.sha256(b"KEY:" + ak_key + auth).digest()
    ak_msg = report_body(place(ak_digest, wak))
    if tail == 2:
        # signed bytes BEYOND the report body that begin with the binding hash, while the report-data field itself does not hold it
        ak_msg = report_body(place(ak_digest, 2)) + ak_digest + bytes([0x5a]) * 32
    ak_sig = b"\x30\x01"
    world.right[(("vk", b"PUB:" + B64[0].encode()), ak_sig, hashlib.sha256(ak_msg).digest())] = vak
    # quote element
    custom = pat(20, 5)
    q_digest = hashlib.sha256(custom).digest()
    q_msg = pat(QUOTE_HEADER, 6) + report_body(place(q_digest, wq))
    if tail == 1:
        q_msg = pat(QUOTE_HEADER, 6) + report_body(place(q_digest, 2)) + q_digest + bytes([0x5a]) * 32
    q_sig = b"\x30\x02"
    world.right[(("vk", ak_key), q_sig, hashlib.sha256(q_msg).digest())] = vq
    els = [{"name": "quote", "type": "sgx_quote", "message": q_msg.hex(), "custom_data": custom.hex(),
            "signature": q_sig.hex(), "signed_by": "attestation"},
           {"name": "attestation", "type": "sgx_attestation_key", "message": ak_msg.hex(), "key": ak_key.hex(),
            "auth_data": auth.hex(), "signature": ak_sig.hex(), "signed_by": XNAMES[0]}]
    for i in range(depth):
        els.append({"name": XNAMES[i], "type": "x509_pem", "message": B64[i],
                    "signed_by": XNAMES[i + 1] if i + 1 < depth else "sgx_root"})
    if shadow is not None:
        # the file ALSO carries an element named like the root of trust: a self-signed certificate of the file's author, under
        # which the topmost certificate "verifies" (verdict `shadow`) - the caller's root of trust must still be the judge
        world.certs[pem_of(SHADOW_B64)] = TokCert(world, SHADOW_B64.encode(), -10 ** 9, 10 ** 9)
        world.right[(("x509key", SHADOW_B64.encode()), b"SIG:" + SHADOW_B64.encode(), b"TBS:" + SHADOW_B64.encode())] = True
        top_b64 = B64[depth - 1].encode()
        world.right[(("x509key", SHADOW_B64.encode()), b"SIG:" + top_b64, b"TBS:" + top_b64)] = shadow
        els.append({"name": "sgx_root", "type": "x509_pem", "message": SHADOW_B64, "signed_by": "sgx_root"})
    doc = {"version": 2, "targets": ["quote"], "elements": els}
    saved = install(world)
    try:
        from sim.base import c_boundary
        if not getattr(c2.SgxQuote, "_verif_native", False):
            for name in ("SgxQuote", "SgxReportBody", "is_nonempty_hex_string"):
                wfn = c_boundary(getattr(c2, name))
                wfn._verif_native = True
                setattr(c2, name, wfn)
        try:
            cert = c2.HSMCertificateV2(doc)
        except ValueError:
            return shadow is not None          # (a file with an element named like the root may be refused outright)
        root = c2.HSMCertificateV2ElementX509({"name": "sgx_root", "message": ROOT_B64, "signed_by": "sgx_root"})
        got = cert.validate_and_get_values(root)
        def judge(got, now_, vs_):
            # ---- oracle: walk from the root down
            failing = None
            for i in range(depth - 1, -1, -1):
                if not (nbs[i] <= now_ <= nas[i] and vs_[i]):
                    failing = XNAMES[i]
                    break
            if failing is None and not (p256 and vak and wak == 0 and tail != 2):
                failing = "attestation"
            if failing is None and not (vq and wq == 0 and tail != 1):
                failing = "quote"
            g = got.get("quote")
            if failing is not None:
                return g == (False, failing) and len(got) == 1
            if g is None or g[0] is not True or len(g) != 3 or g[2] is not None:
                return False
            val = g[1]
            # the reported custom message and quote fields are the signed ones
            return val["message"] == custom.hex() and bytes(val["sgx_quote"].get_raw_data()) == q_msg[:432] \
                and bytes(val["sgx_quote"].report_body.report_data.field) == place(q_digest, 0) \
                and bytes(val["sgx_quote"].report_body.mrenclave) == q_msg[QUOTE_HEADER + 64:QUOTE_HEADER + 96]
        if not judge(got, now, vs):
            return False
        if not second:
            return True
        # the SAME certificate object validated again later (another time) and against a root whose signature on the topmost
        # certificate has another verdict: everything is judged afresh
        world.now = now2
        top = depth - 1
        world.right[(("x509key", ROOT_B64.encode()), b"SIG:" + B64[top].encode(), b"TBS:" + B64[top].encode())] = vtop2
        vs2 = list(vs)
        vs2[top] = vtop2
        got2 = cert.validate_and_get_values(root)
        return judge(got2, now2, vs2)
    except Exception as e:
        reraise_control_flow(e)
        from harness.common import note
        import traceback
        note("raised", "".join(traceback.format_exception(e))[-600:])
        return False
    finally:
        uninstall(saved)


@obligation(tier="quick", parts=lambda tier: 4 if tier == "thorough" else 3, timeout=240,
            part_names=["1 X.509 element", "2 X.509 elements", "3 X.509 elements", "4 X.509 elements"],
            bounds="X.509 chain depth 1..3 (T: 4) (partition) below the root of trust; per X.509 element: not-before / not-after and the current "
                   "time symbolic integers, issuer-signature verdict symbolic; key of the certificate certifying the attestation key "
                   "P-256 or not; attestation key and quote: signature verdict symbolic, binding hash placed as prefix / in the second "
                   "half / nowhere (symbolic); verdict for any other triple symbolic",
            examples=[(0, dict(now=5, nb0=0, na0=9, nb1=0, na1=9, nb2=0, na2=9, nb3=0, na3=9, v0=True, v1=True, v2=True, v3=True, p256=True, vak=True, vq=True,
                               wak=0, wq=0, w=False)),
                      (2, dict(now=5, nb0=0, na0=9, nb1=6, na1=9, nb2=0, na2=9, nb3=0, na3=9, v0=True, v1=True, v2=True, v3=True, p256=True, vak=True, vq=True,
                               wak=0, wq=0, w=True)),
                      (1, dict(now=5, nb0=0, na0=9, nb1=0, na1=9, nb2=0, na2=9, nb3=0, na3=9, v0=True, v1=True, v2=True, v3=True, p256=True, vak=True, vq=True,
                               wak=1, wq=0, w=True)),
                      (1, dict(now=5, nb0=0, na0=5, nb1=5, na1=9, nb2=0, na2=9, nb3=0, na3=9, v0=True, v1=True, v2=True, v3=True, p256=False, vak=True, vq=True,
                               wak=0, wq=0, w=True))])
def chain(now: int, nb0: int, na0: int, nb1: int, na1: int, nb2: int, na2: int, nb3: int, na3: int, v0: bool, v1: bool, v2: bool,
          v3: bool, p256: bool, vak: bool, vq: bool, wak: int, wq: int, w: bool) -> bool:
    """
    pre: 0 <= wak <= 2 and 0 <= wq <= 2
    post: _
    """
    return _chain(now, nb0, na0, nb1, na1, nb2, na2, nb3, na3, v0, v1, v2, v3, p256, vak, vq, wak, wq, w)


@obligation(tier="quick", parts=lambda tier: 4 if tier == "thorough" else 3, timeout=240,
            part_names=["1 X.509 element", "2 X.509 elements", "3 X.509 elements", "4 X.509 elements"],
            bounds="the same certificate object validated twice: current time of the first and of the second validation, validity window of "
                   "the topmost certificate, verdict of its signature under the root in the first and in the second validation, and the "
                   "'other triple' verdict are symbolic; everything else valid",
            examples=[(0, dict(now=5, now2=50, nb=0, na=9, vtop=True, vtop2=True, w=False)),
                      (2, dict(now=5, now2=6, nb=0, na=9, vtop=True, vtop2=False, w=True)),
                      (1, dict(now=50, now2=5, nb=0, na=9, vtop=False, vtop2=True, w=False))])
def revalidation(now: int, now2: int, nb: int, na: int, vtop: bool, vtop2: bool, w: bool) -> bool:
    """
    post: _
    """
    depth = part() + 1
    nbs = [-10 ** 9] * 4
    nas = [10 ** 9] * 4
    vs = [True] * 4
    nbs[depth - 1], nas[depth - 1], vs[depth - 1] = nb, na, vtop
    return _chain(now, nbs[0], nas[0], nbs[1], nas[1], nbs[2], nas[2], nbs[3], nas[3], vs[0], vs[1], vs[2], vs[3],
                  True, True, True, 0, 0, w, now2, vtop2, True)


@obligation(tier="quick", parts=3, timeout=200, part_names=["1 X.509 element", "2 X.509 elements", "3 X.509 elements"],
            bounds="a chain that is valid except possibly for the topmost certificate's signature under the caller's root of trust (verdict "
                   "symbolic), in a file that also carries a self-signed element named like the root of trust under which the topmost "
                   "certificate verifies or not (symbolic): the verdict follows the caller's root alone (or the file is refused)",
            examples=[(0, dict(vroot=False, vshadow=True, w=False)), (2, dict(vroot=False, vshadow=True, w=True)), (1, dict(vroot=True, vshadow=False, w=False))])
def shadow_root(vroot: bool, vshadow: bool, w: bool) -> bool:
    """
    post: _
    """
    depth = part() + 1
    vs = [True] * 4
    vs[depth - 1] = vroot
    big = 10 ** 9
    return _chain(5, -big, big, -big, big, -big, big, -big, big, vs[0], vs[1], vs[2], vs[3], True, True, True, 0, 0, w, shadow=vshadow)


@obligation(tier="quick", parts=2, timeout=200, part_names=["quote message with trailing bytes", "attestation key message with trailing bytes"],
            bounds="an otherwise valid chain (1..3 X.509 elements: symbolic) in which the signed message of the quote / of the attestation "
                   "key is LONGER than its structure and the extra 64 bytes begin with the binding hash, while the report-data field "
                   "does not hold it: refused at that element; signature verdicts symbolic",
            examples=[(0, dict(depth=1, vak=True, vq=True, w=False)), (1, dict(depth=2, vak=True, vq=True, w=True)), (0, dict(depth=3, vak=True, vq=False, w=False))])
def trailing_bytes(depth: int, vak: bool, vq: bool, w: bool) -> bool:
    """
    pre: 1 <= depth <= 3
    post: _
    """
    big = 10 ** 9
    d = 1
    for k in (1, 2, 3):
        if depth == k:       # (case split: the chain depth selects a concrete document)
            d = k
    return _chain(5, -big, big, -big, big, -big, big, -big, big, True, True, True, True, True, vak, vq, 0, 0, w, tail=1 + part(),
                  depth_override=d)
