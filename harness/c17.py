"""C17 Signer authorizations contain what the device will check.

message     real SignerVersion.msg / get_authorization_msg / encode_eth_message, iteration symbolic 0..65535.
iteration   real SignerVersion constructor: iteration as an integer over Z and as an ASCII string of <= 5 symbolic
            characters (decimal, 0x-hex, junk): accepted only inside 0..65535, refused when unparseable / out of range.
file        real SignerAuthorization constructor / to_dict / save_to_jsonfile / from_jsonfile (file in memory;
            DER validity of a signature = verdict of the stubbed secp256k1 deserialiser, symbolic per signature).
device      real HSM2Dongle.authorize_signer over the simulated UI: hash | BE16(iteration), then the signatures
            in file order until the device reports the signer authorized; fails if it never does.
(keccak digest and sign-then-verify are crypto primitives: concrete smoke test only, see `digest_smoke`.)
"""
import os

from harness.common import obligation, part, reraise_control_flow
from harness.catalog import pat
from sim.base import blist, World, passthrough, quiet
from sim.ledger import SimDevice

import admin.signer_authorization as sa
import ledger.hsm2dongle as h

THOROUGH = os.environ.get("VERIF_TIER") == "thorough"
HASHES = [pat(32, 7).hex(), "AB" * 32, "00" * 32]
PREFIX = "RSK_powHSM_signer_"


def ndigits(n):
    if n < 10:
        return 1
    if n < 100:
        return 2
    if n < 1000:
        return 3
    if n < 10000:
        return 4
    return 5


@obligation(tier="quick", parts=len(HASHES), timeout=120, part_names=["mixed hash", "upper-case hash", "zero hash"],
            bounds="iteration symbolic over 0..65535; 3 catalogue hashes (partition)",
            examples=[(0, dict(n=0)), (1, dict(n=65535)), (2, dict(n=10)), (0, dict(n=9999))])
def message(n: int) -> bool:
    """
    pre: 0 <= n <= 65535
    post: _
    """
    hsh = HASHES[part()]
    sv = sa.SignerVersion(hsh, n)
    msg = sv.msg
    want = PREFIX + hsh.lower() + "_iteration_" + str(n)
    if msg != want:
        return False
    # EIP-191: 0x19 "Ethereum Signed Message:\n" <decimal length of the text> <text>
    length = len(PREFIX) + 64 + len("_iteration_") + ndigits(n)
    eth = sv.get_authorization_msg()
    return eth == b"\x19Ethereum Signed Message:\n" + str(length).encode("ascii") + want.encode("ascii") \
        and sv.iteration == n and sv.hash == hsh.lower() and sv.to_dict() == {"hash": hsh.lower(), "iteration": n}


def _ascii(s):
    return all(ord(ch) < 128 for ch in s)


STRINGS = ["0x0", "0xffff", "0xFFFF", "0x10000", "0x", "0xg", "0x-1", "", " ", "+5", "1_0", "5.0", "1e3", "-0", "65535", "65536",
           "0", "00012", " 7 ", "0x 1", "\u0663"]


@obligation(tier="quick", parts=4, timeout=200,
            part_names=["integer", "decimal string of -20..120", "catalogue strings (hex, junk)", "decimal string of 65436..65636"],
            bounds="iteration as any integer (Z); as the decimal string str(v) of an integer v in the windows -20..120 and 65436..65636 (T: -200..300 and 64536..66536) "
                   "(symbolic, not enumerated; z3 does not finish on the decimal rendering of an unbounded integer); as one of 21 "
                   "catalogue strings (0x-hex boundary values, signs, underscores, blanks, non-ASCII digits, junk)",
            examples=[(0, dict(n=65536, i=0)), (0, dict(n=-1, i=0)), (0, dict(n=65535, i=0)), (3, dict(n=65536, i=0)), (1, dict(n=12, i=0)),
                      (1, dict(n=-3, i=0))] + [(2, dict(n=0, i=i)) for i in range(21)])
def iteration_bounds(n: int, i: int) -> bool:
    """
    pre: 0 <= i < len(STRINGS)
    pre: part() not in (1, 3) or (-WIN <= n <= 100 + WIN if part() == 1 else 65536 - 5 * WIN <= n <= 65536 + 5 * WIN)
    post: _
    """
    hsh = HASHES[0]
    p = part()
    if p == 0:
        try:
            sv = sa.SignerVersion(hsh, n)
            accepted = True
        except ValueError:
            accepted = False
        return accepted == (0 <= n <= 65535) and (not accepted or sv.iteration == n)
    if p in (1, 3):
        text = str(n)
        try:
            sv = sa.SignerVersion(hsh, text)
            accepted = True
        except ValueError:
            accepted = False
        return accepted == (0 <= n <= 65535) and (not accepted or sv.iteration == n)
    text = STRINGS[i]
    try:
        sv = sa.SignerVersion(hsh, text)
        accepted = True
    except ValueError:
        accepted = False
    # Python's own parser is the primitive: unparseable or out-of-range strings must be refused
    try:
        v = int(text[2:], 16) if text.startswith("0x") else int(text, 10)
    except ValueError:
        v = None
    if v is None or not (0 <= v <= 65535):
        return not accepted
    digits = text[2:] if text.startswith("0x") else text
    canonical = len(digits) > 0 and all(ch in ("0123456789abcdefABCDEF" if text.startswith("0x") else "0123456789") for ch in digits)
    if canonical:
        return accepted and sv.iteration == v
    # signs, blanks, underscores ...: a value inside the range may be accepted (then it is that value) or refused
    return (not accepted) or sv.iteration == v


OTHER_TYPES = [True, False, 1.0, 7.5, None, [1], {"n": 1}, b"7", (3,)]


@obligation(tier="quick", timeout=60,
            bounds="iteration of a type that is neither int nor str (bool, float, null, list, object, bytes, tuple: 9 values, symbolic selection), "
                   "given to the constructor and in an authorization file: refused - a JSON true must not become iteration 1 / the text "
                   "'..._iteration_True'",
            examples=[(0, dict(i=i, infile=False)) for i in range(9)] + [(0, dict(i=0, infile=True)), (0, dict(i=2, infile=True))])
def iteration_types(i: int, infile: bool) -> bool:
    """
    pre: 0 <= i < len(OTHER_TYPES)
    post: _
    """
    from harness.c16 import pick
    v = pick(OTHER_TYPES, i)
    if not infile:
        try:
            sa.SignerVersion(HASHES[0], v)
        except ValueError:
            return True
        except Exception as e:
            from harness.common import reraise_control_flow
            reraise_control_flow(e)
            return False
        return False
    if isinstance(v, (bytes, tuple)):
        return True                      # (no JSON document holds these)
    import json as real_json
    fs = _Files()
    fs.content["/x/auth.json"] = real_json.dumps({"version": 1, "signer": {"hash": HASHES[0], "iteration": v}, "signatures": []})
    real_open = sa.__dict__.get("open")
    sa.open = fs.open
    try:
        sa.SignerAuthorization.from_jsonfile("/x/auth.json")
    except ValueError:
        return True
    except Exception as e:
        from harness.common import reraise_control_flow
        reraise_control_flow(e)
        return False
    finally:
        if real_open is None:
            del sa.open
        else:
            sa.open = real_open
    return False


SMAX = 5 if THOROUGH else 3
WIN = 200 if THOROUGH else 20          # half-width of the decimal-string windows


@obligation(tier="quick", parts=3, timeout=60, part_names=["hash too short", "hash not hex", "hash not a string"],
            bounds="malformed hashes (catalogue)", examples=[(0, dict(n=1)), (1, dict(n=1)), (2, dict(n=1))])
def bad_hash(n: int) -> bool:
    """
    pre: 0 <= n <= 65535
    post: _
    """
    bad = [pat(31, 1).hex(), "zz" * 32, 5][part()]
    try:
        sa.SignerVersion(bad, n)
    except ValueError:
        return True
    except Exception as e:
        reraise_control_flow(e)
        return False
    return False


# ------------------------------------------------------------------ file round trip

class _EcStub:
    """secp256k1 inside admin.signer_authorization: the deserialiser accepts exactly the byte strings in `valid`."""
    def __init__(self, valid):
        self.valid = valid
        self.seen = []

    def PrivateKey(self):
        return self

    def ecdsa_deserialize(self, b):
        self.seen.append(bytes(b))
        if bytes(b) not in self.valid:
            raise Exception("malformed DER")
        return object()


class _Files:
    def __init__(self):
        self.content = {}

    def open(self, path, mode="r"):
        return _F(self, path, mode)


class _F:
    def __init__(self, fs, path, mode):
        self.fs, self.path, self.mode = fs, path, mode
        if "w" in mode:
            fs.content[path] = ""

    def __enter__(self):
        return self

    def __exit__(self, *a):
        return False

    def read(self):
        return self.fs.content[self.path]

    def write(self, s):
        self.fs.content[self.path] += s


SIGS = ["3006020101020102", "3006020103020104", "3006020105020106"]


@obligation(tier="quick", timeout=150,
            bounds="0..3 signatures (symbolic count), each with a symbolic DER verdict of the (stubbed) secp256k1 deserialiser or not "
                   "hex at all; iteration among {0, 5, 65535}",
            examples=[(0, dict(cnt=0, v0=True, v1=True, v2=True, nothex=3, n=1)), (0, dict(cnt=3, v0=True, v1=False, v2=True, nothex=3, n=1)),
                      (0, dict(cnt=2, v0=True, v1=True, v2=True, nothex=1, n=2))])
def file_roundtrip(cnt: int, v0: bool, v1: bool, v2: bool, nothex: int, n: int) -> bool:
    """
    pre: 0 <= cnt <= 3
    pre: 0 <= nothex <= 3
    pre: 0 <= n <= 2
    post: _
    """
    n = [0, 5, 65535][n]      # (json renders the integer: a symbolic iteration would be enumerated digit by digit)
    sigs = SIGS[:cnt]
    if nothex < cnt:
        sigs[nothex] = "zz"
    verdicts = [v0, v1, v2]
    stub = _EcStub({bytes.fromhex(SIGS[i]) for i in range(3) if verdicts[i]})
    fs = _Files()
    real_ec, real_open = sa.ec, sa.__dict__.get("open")
    sa.ec = stub
    sa.open = fs.open
    try:
        all_ok = all(verdicts[i] for i in range(cnt)) and not (nothex < cnt)
        try:
            auth = sa.SignerAuthorization(sa.SignerVersion(HASHES[0], n), sigs)
        except ValueError:
            return not all_ok          # a malformed signature is refused
        if not all_ok:
            return False
        auth.save_to_jsonfile("/x/auth.json")
        back = sa.SignerAuthorization.from_jsonfile("/x/auth.json")
        return back.to_dict() == auth.to_dict() == {"version": 1, "signer": {"hash": HASHES[0], "iteration": n},
                                                    "signatures": sigs} and back.signatures == sigs
    finally:
        sa.ec = real_ec
        if real_open is None:
            del sa.open
        else:
            sa.open = real_open


@obligation(tier="quick", timeout=150,
            bounds="an authorization with 0 or 1 signatures, then three add_signature calls, each with a signature the (stubbed) "
                   "deserialiser accepts or refuses (symbolic) or that is not hex at all: a refused one raises and leaves the object "
                   "as it was; the accepted ones are kept in call order and survive save / load",
            examples=[(0, dict(start=0, v0=True, v1=False, v2=True, nothex=3)), (0, dict(start=1, v0=False, v1=True, v2=True, nothex=2)),
                      (0, dict(start=0, v0=False, v1=False, v2=False, nothex=3))])
def add_signatures(start: int, v0: bool, v1: bool, v2: bool, nothex: int) -> bool:
    """
    pre: 0 <= start <= 1
    pre: 0 <= nothex <= 3
    post: _
    """
    verdicts = [v0, v1, v2]
    first = "3006020107020108"
    stub = _EcStub({bytes.fromhex(SIGS[i]) for i in range(3) if verdicts[i]} | {bytes.fromhex(first)})
    fs = _Files()
    real_ec, real_open = sa.ec, sa.__dict__.get("open")
    sa.ec = stub
    sa.open = fs.open
    try:
        kept = [first] if start == 1 else []
        auth = sa.SignerAuthorization(sa.SignerVersion(HASHES[0], 7), list(kept))
        for i in range(3):
            sig = "zz" if nothex == i else SIGS[i]
            good = verdicts[i] and nothex != i
            try:
                auth.add_signature(sig)
                if not good:
                    return False           # a malformed signature was taken
                kept.append(sig)
            except ValueError:
                if good:
                    return False
            # whatever happened, the object holds exactly the accepted signatures, in order
            if auth.signatures != kept or auth.to_dict()["signatures"] != kept:
                return False
        auth.save_to_jsonfile("/x/auth.json")
        back = sa.SignerAuthorization.from_jsonfile("/x/auth.json")
        return back.to_dict() == auth.to_dict() and back.signatures == kept
    except Exception as e:
        from harness.common import reraise_control_flow, note
        reraise_control_flow(e)
        note("raised", type(e).__name__, str(e)[:200])
        return False
    finally:
        sa.ec = real_ec
        if real_open is None:
            del sa.open
        else:
            sa.open = real_open


# ------------------------------------------------------------------ device exchange

class _Auth:
    def __init__(self, hsh, it, sigs):
        self.signer_version = _SV(hsh, it)
        self.signatures = sigs


class _SV:
    def __init__(self, hsh, it):
        self.hash, self.iteration = hsh, it


@obligation(tier="quick", parts=2, timeout=200, part_names=["device authorizes after k signatures", "device never authorizes"],
            bounds="iteration symbolic 0..65535; number of signatures in the file symbolic 0..4; device threshold k symbolic 1..5",
            examples=[(0, dict(it=0x1234, n=3, k=2)), (0, dict(it=0, n=2, k=3)), (1, dict(it=65535, n=4, k=1)), (0, dict(it=1, n=0, k=1)),
                      (0, dict(it=1, n=4, k=4))])
def device_exchange(it: int, n: int, k: int) -> bool:
    """
    pre: 0 <= it <= 65535
    pre: 0 <= n <= 4
    pre: 1 <= k <= 5
    post: _
    """
    never = part() == 1
    sigs = ["30060201%02x020101" % (i + 1) for i in range(n)]
    d = SimDevice()
    d.mode = 2
    d.auth_threshold = None if never else k
    world = World(d)
    world.install(bytes_model=True)
    dongle = passthrough(h.HSM2Dongle)(False)
    quiet(dongle)
    dongle.connect()
    raised = False
    try:
        r = dongle.authorize_signer(_Auth(HASHES[0], it, sigs))
    except h.HSM2DongleError:
        raised = True
    except Exception as e:
        reraise_control_flow(e)
        return False
    a = d.auth
    if a is None or a["hash"] != list(bytes.fromhex(HASHES[0])) or a["iteration_bytes"] != [it // 256, it % 256]:
        return False
    should_succeed = (not never) and k <= n
    sent = k if should_succeed else n
    if a["signatures"] != [list(bytes.fromhex(s)) for s in sigs[:sent]]:
        return False
    if world.violations:
        return False
    return (raised is False and r is True) if should_succeed else raised


@obligation(tier="quick", parts=2, timeout=200, part_names=["refused at the signer-version exchange", "refused at a signature exchange"],
            bounds="the device answers one exchange of the authorization with an error status (symbolic 0x6A00..0x6AFF - the firmware's "
                   "signer-authorization errors incl. 0x6A03 'invalid iteration' - and 0x6985 / 0x6B00..0x6B10); index of the refused "
                   "signature symbolic: the command never reports the signer authorized",
            examples=[(0, dict(sw=0x6A03, j=0)), (0, dict(sw=0x6A01, j=0)), (1, dict(sw=0x6A04, j=1)), (1, dict(sw=0x6985, j=0))])
def device_refusal(sw: int, j: int) -> bool:
    """
    pre: (0x6A00 <= sw <= 0x6AFF) or sw == 0x6985 or (0x6B00 <= sw <= 0x6B10)
    pre: 0 <= j <= 2
    post: _
    """
    from sim.base import raise_fault, FAULT_SW, blist
    at_version = part() == 0
    sigs = ["30060201%02x020101" % (i + 1) for i in range(3)]
    d = SimDevice()
    d.mode = 2
    d.auth_threshold = 3
    world = World(d)
    world.install(bytes_model=True)
    seen = {"sigs": 0}

    def hook(k, apdu):
        a = blist(apdu)
        if a[1] != 0x51:
            return
        if a[2] == 0x01 and at_version:
            raise_fault(FAULT_SW, sw)
        if a[2] == 0x02:
            if not at_version and seen["sigs"] == j:
                raise_fault(FAULT_SW, sw)
            seen["sigs"] += 1
    world.fault_hook = hook
    dongle = passthrough(h.HSM2Dongle)(False)
    quiet(dongle)
    dongle.connect()
    try:
        r = dongle.authorize_signer(_Auth(HASHES[0], 7, sigs))
    except h.HSM2DongleBaseError:
        return True                       # the command fails: fine
    except Exception as e:
        reraise_control_flow(e)
        return False
    return r is not True                  # never "authorized" when the device refused


@obligation(tier="quick", timeout=60, bounds="concrete smoke test of the crypto wiring: digest = Keccak-256 of the EIP-191 message",
            examples=[(0, dict(n=2))])
def digest_smoke(n: int) -> bool:
    """
    pre: 0 <= n <= 2
    post: _
    """
    from sim.base import c_boundary

    def smoke(k):
        from Crypto.Hash import keccak
        sv = sa.SignerVersion(HASHES[0], [0, 1, 65535][k])
        want = keccak.new(digest_bits=256).update(sv.get_authorization_msg()).digest()
        return sv.get_authorization_digest() == want
    return c_boundary(smoke)(n)
