"""C13 Query replies report the device's data verbatim.

Real protocol handlers + real HSM2Dongle getters over the simulated device whose data
(key bytes, hash bytes, 36 difficulty bytes, flags, network byte, heartbeat fields, DER
signature bytes, modes during uiHeartbeat) are solver variables.  Oracle: docs/protocol.md
field names + firmware selectors (bc_state.h, bc_nu.h).
"""
from typing import List

from harness.common import obligation, part
from harness.world import make_stack, handle
from harness.catalog import valid_request, KEY_PATHS, path_bytes
from sim.base import hexof
from sim.ledger import SimDevice

# docs/protocol.md field  ->  firmware hash descriptor (bc_state.h)
STATE_FIELDS = [
    (("best_block",), 0x01),
    (("newest_valid_block",), 0x02),
    (("ancestor_block",), 0x03),
    (("ancestor_receipts_root",), 0x05),
    (("updating", "best_block"), 0x81),
    (("updating", "newest_valid_block"), 0x82),
    (("updating", "next_expected_block"), 0x84),
]
NETWORKS = {0x01: "mainnet", 0x02: "testnet", 0x03: "regtest"}   # bc_nu.h


def be_value(bs):
    v = 0
    for b in bs:
        v = v * 256 + b
    return v


@obligation(tier="quick", parts=2, timeout=90, part_names=["v5", "v1"],
            bounds="6 documented key paths (symbolic index), 4 symbolic key bytes (positions 0, 1, 33, 64) in the requested "
                   "path's key, every other path holds a different key; both protocol modes",
            examples=[(0, dict(pi=0, b0=4, b1=1, b2=2, b3=3)), (1, dict(pi=5, b0=4, b1=255, b2=0, b3=9))])
def pubkey(pi: int, b0: int, b1: int, b2: int, b3: int) -> bool:
    """
    pre: 0 <= pi <= 5
    pre: 0 <= b0 <= 255 and 0 <= b1 <= 255 and 0 <= b2 <= 255 and 0 <= b3 <= 255
    post: _
    """
    v1 = part() == 1
    d = SimDevice()
    keys = {}
    for j, p in enumerate(KEY_PATHS):
        k = [4] + [0x10 + j] * 64
        keys[tuple(path_bytes(p))] = k
    want = [b0, b1] + [0x77] * 31 + [b2] + [0x66] * 30 + [b3]
    keys[tuple(path_bytes(KEY_PATHS[pi]))] = want
    d.pubkeys = keys
    d.default_pubkey = [4] + [0xEE] * 64
    proto, dongle, world = make_stack(d, v1=v1)
    req = {"command": "getPubKey", "version": 1 if v1 else 5, "keyId": KEY_PATHS[pi]}
    out = handle(proto, req)
    return out[0] == "reply" and out[1].get("errorcode") == 0 and out[1].get("pubKey") == hexof(want)


@obligation(tier="quick", parts=2, timeout=120, part_names=["36 difficulty bytes", "short difficulty (0..3 bytes)"],
            bounds="hash bytes: one symbolic byte per hash + distinct tokens; total difficulty: 36 symbolic bytes (all 2^288 "
                   "values) or 0..3 bytes; 3 flag bytes 0..255 each",
            examples=[(0, dict(h=7, diff=bytes([0] * 35 + [9]), f0=0, f1=1, f2=255)),
                      (0, dict(h=0, diff=bytes([255] * 36), f0=1, f1=0, f2=0)), (1, dict(h=1, diff=b'', f0=0, f1=0, f2=0)),
                      (1, dict(h=1, diff=bytes([1, 0]), f0=0, f1=0, f2=2))])
def blockchain_state(h: int, diff: bytes, f0: int, f1: int, f2: int) -> bool:
    """
    pre: 0 <= h <= 255
    pre: len(diff) == 36 if part() == 0 else len(diff) <= 3
    pre: 0 <= f0 <= 255 and 0 <= f1 <= 255 and 0 <= f2 <= 255
    post: _
    """
    d = SimDevice()
    hashes = {}
    for (_, sel) in STATE_FIELDS:
        hashes[sel] = [sel & 0x7f] * 16 + [h] + [(sel * 3) & 0xff] * 15
    d.hashes = hashes
    d.difficulty = list(diff)
    d.flags = [f0, f1, f2]
    proto, dongle, world = make_stack(d)
    out = handle(proto, valid_request("blockchainState"))
    if out[0] != "reply" or out[1].get("errorcode") != 0:
        return False
    st = out[1].get("state")
    ok = True
    for (path, sel) in STATE_FIELDS:
        node = st
        for p in path:
            node = node[p]
        if not (node == hexof(hashes[sel])):
            ok = False
    up = st["updating"]
    if up["total_difficulty"] != be_value(diff):
        ok = False
    if up["in_progress"] is not (f0 != 0) or up["already_validated"] is not (f1 != 0) \
            or up["found_best_block"] is not (f2 != 0):
        ok = False
    # (all documented fields were read above; additional fields would not contradict the statement)
    return ok


@obligation(tier="quick", timeout=120,
            bounds="checkpoint: 2 symbolic bytes (first/last) + token; minimum difficulty: 36 symbolic bytes; network byte 0..255",
            examples=[(0, dict(c0=1, c31=2, mrd=bytes(36), net=1)), (0, dict(c0=1, c31=2, mrd=bytes([1] + [0] * 35), net=3)),
                      (0, dict(c0=0, c31=0, mrd=bytes([255] * 36), net=0)), (0, dict(c0=0, c31=0, mrd=bytes([255] * 36), net=4))])
def parameters(c0: int, c31: int, mrd: bytes, net: int) -> bool:
    """
    pre: 0 <= c0 <= 255 and 0 <= c31 <= 255 and 0 <= net <= 255
    pre: len(mrd) == 36
    post: _
    """
    d = SimDevice()
    cp = [c0] + [0x5a] * 30 + [c31]
    d.params = cp + list(mrd) + [net]
    proto, dongle, world = make_stack(d)
    out = handle(proto, valid_request("blockchainParameters"))
    if out[0] != "reply":
        return False
    if net not in (1, 2, 3):
        # not a network the firmware can report: device error, never a made-up name
        return out[1] == {"errorcode": -905}
    p = out[1].get("parameters")
    return out[1].get("errorcode") == 0 and p is not None and p["checkpoint"] == hexof(cp) \
        and p["minimum_difficulty"] == be_value(mrd) and p["network"] == NETWORKS[net]


def der_oracle(sig):
    """Independent reading of 30|31 LEN 02 RL R 02 SL S [rubbish]; returns (r, s) or None."""
    n = len(sig)
    if n < 2 or (sig[0] != 0x30 and sig[0] != 0x31):
        return None
    if sig[1] > n - 2:
        return None
    if n < 4 or sig[2] != 0x02:
        return None
    rl = sig[3]
    if 4 + rl > n:
        return None
    r = sig[4:4 + rl]
    p = 4 + rl
    if p + 2 > n or sig[p] != 0x02:
        return None
    sl = sig[p + 1]
    if p + 2 + sl > n:
        return None
    s = sig[p + 2:p + 2 + sl]
    return (r, s)


@obligation(tier="quick", parts=2, timeout=150, part_names=["signerHeartbeat", "uiHeartbeat"],
            bounds="DER signature: symbolic list of <= 9 bytes (Q) / <= 12 (T) incl. the 0x31 quirk, wrong tags, lengths beyond the "
                   "buffer, trailing rubbish; pubkey / message / tweak: tokens with one symbolic byte each",
            examples=[(0, dict(sig=bytes([0x30, 6, 2, 1, 5, 2, 1, 7]), k=4, m=1, t=2)), (1, dict(sig=bytes([0x31, 6, 2, 1, 5, 2, 1, 7, 9]), k=4, m=1, t=2)),
                      (0, dict(sig=bytes([0x30, 6, 2, 1]), k=4, m=1, t=2)), (0, dict(sig=b'', k=4, m=1, t=2))])
def heartbeat(sig: bytes, k: int, m: int, t: int) -> bool:
    """
    pre: len(sig) <= SIGMAX
    pre: 0 <= k <= 255 and 0 <= m <= 255 and 0 <= t <= 255
    post: _
    """
    ui = part() == 1
    d = SimDevice()
    d.signature = list(sig)
    d.hb_pubkey = [4, k] + [0x33] * 63
    d.hb_message = [0x48, m, 0x42]
    d.hb_tweak = [t] + [0x55] * 31
    if ui:
        d.mode_after_exit = [4, 3]
    proto, dongle, world = make_stack(d)
    out = handle(proto, valid_request("uiHeartbeat" if ui else "signerHeartbeat"))
    want = der_oracle(list(sig))
    if out[0] != "reply" and want is not None:
        return False
    if want is None:
        # the device did not return a DER signature: outside the property (its quantifier is over valid DER
        # signatures of a device that keeps to its protocol); in any case no made-up components
        return out[0] != "reply" or out[1].get("errorcode") != 0
    r = out[1]
    return r.get("errorcode") == 0 and r.get("pubKey") == hexof(d.hb_pubkey) and r.get("message") == hexof(d.hb_message) \
        and r.get("tweak") == hexof(d.hb_tweak) and r["signature"]["r"] == hexof(want[0]) \
        and r["signature"]["s"] == hexof(want[1])


import os
SIGMAX = 12 if os.environ.get("VERIF_TIER") == "thorough" else 9


@obligation(tier="quick", timeout=120,
            bounds="device mode before the heartbeat, after the first exit and after the second exit: each in {bootloader 2, "
                   "signer 3, UI heartbeat 4, no powHSM app running (GET_MODE answered with status 0x6E00)}",
            examples=[(0, dict(m0=1, m1=2, m2=1)), (0, dict(m0=2, m1=2, m2=2)), (0, dict(m0=1, m1=2, m2=0)),
                      (0, dict(m0=0, m1=2, m2=1)), (0, dict(m0=1, m1=1, m2=1)), (0, dict(m0=1, m1=2, m2=3))])
def ui_heartbeat_modes(m0: int, m1: int, m2: int) -> bool:
    """
    pre: 0 <= m0 <= 3 and 0 <= m1 <= 3 and 0 <= m2 <= 3
    post: _
    """
    MODES = [0x02, 0x03, 0x04, None]
    d = ModeDevice(MODES[m0], [MODES[m1], MODES[m2]])
    proto, dongle, world = make_stack(d)
    out = handle(proto, valid_request("uiHeartbeat"))
    if out[0] != "reply":
        return False
    code = out[1].get("errorcode")
    final_mode = d.mode
    # "A UI heartbeat leaves the device back in signer mode or reports a device error"
    if code == 0:
        # started in signer mode: must be back there.  Started in UI-heartbeat mode: the manager gathers the
        # heartbeat without leaving that mode (the device is left as it was found).
        if MODES[m0] == 0x03:
            return final_mode == 0x03 and d.hb_ud is not None
        return MODES[m0] == 0x04 and final_mode == 0x04 and d.hb_ud is not None
    return code == -905


class ModeDevice(SimDevice):
    """Answers GET_MODE with whatever mode byte it is in (also undocumented ones); serves the
    heartbeat only in UI-heartbeat mode (0x04) or signer mode."""
    def __init__(self, m0, after):
        super().__init__()
        self.mode = m0
        self.mode_after_exit = list(after)

    def handle(self, apdu):
        from sim.base import blist, resp
        a = blist(apdu)
        if a[1] == 0x43:
            self.received.append((0x43, a[2:]))
            if self.mode is None:
                from sim.base import raise_fault, FAULT_SW
                raise_fault(FAULT_SW, 0x6E00)
            return resp([0x80, self.mode])
        if a[1] == 0x60 and self.mode in (0x03, 0x04):
            self.received.append((0x60, a[2:]))
            return self.handle_heartbeat(a[2:])
        if a[1] == 0x60:
            from sim.ledger import ProtocolViolation
            raise ProtocolViolation("heartbeat in mode %x" % self.mode)
        return SimDevice.handle(self, apdu)


# ------------------------------------------------------------------ a device swapped behind a reconnect; failing reconnects in uiHeartbeat

@obligation(tier="quick", parts=6, timeout=200, part_names=["ledger", "tcp", "sgx", "ledger/v1", "tcp/v1", "sgx/v1"],
            bounds="getPubKey, blockchainParameters and blockchainState queried (legacy v1 mode: getPubKey of two paths), the device replaced by "
                   "another one (key / checkpoint / network / difficulty / hash bytes symbolic for both), a link error, and the queries repeated "
                   "after the repair: the second answers are the second device's data; platform classes HSM2Dongle / HSM2DongleTCP / "
                   "HSM2DongleSGX and protocol mode (partitions)",
            examples=[(0, dict(a=1, b=2, n1=1, n2=3)), (1, dict(a=9, b=9, n1=2, n2=2)), (2, dict(a=0, b=255, n1=3, n2=1)),
                      (3, dict(a=1, b=2, n1=1, n2=3)), (5, dict(a=7, b=8, n1=1, n2=1))])
def swapped_device(a: int, b: int, n1: int, n2: int) -> bool:
    """
    pre: 0 <= a <= 255 and 0 <= b <= 255
    pre: 1 <= n1 <= 3 and 1 <= n2 <= 3
    post: _
    """
    from sim.base import raise_fault, FAULT_READ
    platform = ["ledger", "tcp", "sgx"][part() % 3]
    v1 = part() >= 3

    def keyof(x, j):
        return [4, x] + [0x30 + j] * 62 + [x]

    def device(x, net):
        d = SimDevice()
        d.params = [x] + [0x5a] * 31 + [0] * 35 + [x] + [net]
        d.hashes = {sel: [x] * 32 for (_, sel) in STATE_FIELDS}
        d.difficulty = [x, 1]
        d.pubkeys = {tuple(path_bytes(p)): keyof(x, j) for j, p in enumerate(KEY_PATHS)}
        return d

    def key_query(proto, j):
        return handle(proto, {"command": "getPubKey", "version": 1 if v1 else 5, "keyId": KEY_PATHS[j]})

    def query(proto):
        k0, k1 = key_query(proto, 0), key_query(proto, 3)
        if v1:
            return k0, k1, None, None
        p = handle(proto, valid_request("blockchainParameters"))
        s = handle(proto, valid_request("blockchainState"))
        return k0, k1, p, s

    def expect(r, x, net):
        k0, k1, p, s = r
        for (k, j) in ((k0, 0), (k1, 3)):
            if not (k[0] == "reply" and k[1].get("errorcode") == 0 and k[1].get("pubKey") == hexof(keyof(x, j))):
                return False
        if v1:
            return True
        return p[0] == "reply" and p[1].get("errorcode") == 0 and p[1]["parameters"]["checkpoint"] == hexof([x] + [0x5a] * 31) \
            and p[1]["parameters"]["minimum_difficulty"] == x and p[1]["parameters"]["network"] == NETWORKS[net] \
            and s[0] == "reply" and s[1].get("errorcode") == 0 and s[1]["state"]["best_block"] == hexof([x] * 32) \
            and s[1]["state"]["updating"]["total_difficulty"] == x * 256 + 1
    d1 = device(a, n1)
    proto, dongle, world = make_stack(d1, platform=platform, v1=v1)
    if not expect(query(proto), a, n1):
        return False
    # the device is unplugged and another one is plugged in
    world.device = device(b, n2)
    st = {"armed": True}

    def hook(idx, apdu):
        if st["armed"]:
            st["armed"] = False
            raise_fault(FAULT_READ)
    world.fault_hook = hook
    if key_query(proto, 0) != ("reply", {"errorcode": -2 if v1 else -905}):
        return False
    return expect(query(proto), b, n2)


@obligation(tier="quick", timeout=120,
            bounds="uiHeartbeat started in signer mode: the reconnection after the first or after the second exit fails (symbolic) - then the "
                   "reply is a device error, never data",
            examples=[(0, dict(cfail=1)), (0, dict(cfail=2)), (0, dict(cfail=0))])
def ui_heartbeat_reconnect_fails(cfail: int) -> bool:
    """
    pre: 0 <= cfail <= 2
    post: _
    """
    from sim.base import comm_exception
    d = SimDevice()
    d.mode_after_exit = [4, 3]
    proto, dongle, world = make_stack(d)
    n = {"c": 0}

    def connect_hook():
        n["c"] += 1
        if n["c"] == cfail:
            d.mode = 2          # the device did not come back as expected
            raise comm_exception("No dongle found", 0x6F00)
    world.connect_hook = connect_hook
    out = handle(proto, valid_request("uiHeartbeat"))
    if out[0] != "reply":
        return False
    if cfail == 0:
        return out[1].get("errorcode") == 0 and d.mode == 3
    return out[1] == {"errorcode": -905}
