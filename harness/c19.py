"""C19 App hashing and one-time signing bind to the application's actual code.

app_hash     real admin.ledger_utils.compute_app_hash (and signapp's `hash` / `message` operations) over Intel-HEX
             files held in memory and parsed by the real ledgerblue IntelHexParser.  The IMAGE (areas, zones, gaps,
             an all-zero area, out-of-order areas) is a catalogue entry; HOW each area is cut into records is
             symbolic (two cut points per run, each 1..len-1) - the digest must not depend on it and must equal
             SHA-256 over the areas' data in ascending address order.
one_time     real signonetime.main with ecdsa replaced by a token algebra and files in memory: one .sig per image holding
             sign(sk, hash(that image)), one public-key file holding pub(sk), sk from one fresh generate() per run, the
             secret written nowhere.
"""
import hashlib
import sys as real_sys

from harness.common import obligation, part, reraise_control_flow, note
from harness.catalog import pat

import admin.ledger_utils as lu
import ledgerblue.hexParser as hp
import signonetime
import signapp


import os
KMAX = 100 if os.environ.get("VERIF_TIER") == "thorough" else 40


def record(count_addr_type_data):
    b = bytes(count_addr_type_data)
    cs = (-sum(b)) & 0xff
    return ":" + (b + bytes([cs])).hex().upper()


def data_records(addr, data, cuts):
    """Cut `data` (at 16-bit address `addr`) into records at the given cut positions."""
    out = []
    pos = 0
    for c in sorted(set([x for x in cuts if 0 < x < len(data)])) + [len(data)]:
        chunk = data[pos:c]
        while len(chunk) > 0:
            piece = chunk[:255]
            out.append(record([len(piece), ((addr + pos) >> 8) & 0xff, (addr + pos) & 0xff, 0x00] + list(piece)))
            pos += len(piece)
            chunk = chunk[255:]
    return out


def zone_record(zone):
    return record([2, 0, 0, 0x04, (zone >> 8) & 0xff, zone & 0xff])


EOF = ":00000001FF"

# images: list of (zone, addr, data) in FILE order; areas must not be contiguous unless meant to merge
IMAGES = [
    ("one area", [(0xc0d0, 0x0000, pat(40, 1))]),
    ("two areas with a gap, in address order", [(0xc0d0, 0x0000, pat(20, 2)), (0xc0d0, 0x0100, pat(30, 3))]),
    ("two areas written out of address order", [(0xc0d0, 0x0100, pat(30, 3)), (0xc0d0, 0x0000, pat(20, 2))]),
    ("two zones, higher zone first", [(0xc0d1, 0x0000, pat(16, 4)), (0xc0d0, 0x0040, pat(24, 5))]),
    ("an all-zero area between two others", [(0xc0d0, 0x0000, pat(10, 6)), (0xc0d0, 0x0080, bytes(32)), (0xc0d0, 0x0200, pat(12, 7))]),
    ("an all-zero image", [(0xc0d0, 0x0000, bytes(48))]),
    ("area longer than one record", [(0xc0d0, 0x1000, pat(300, 8))]),
    ("an area of exactly 4096 bytes and one of 8192", [(0xc0d0, 0x0000, pat(4096, 12)), (0xc0d1, 0x0000, pat(8192, 13))]),
    ("contiguous pieces (one area) then a separate one", [(0xc0d0, 0x0000, pat(8, 9)), (0xc0d0, 0x0008, pat(8, 10)), (0xc0d0, 0x0100, pat(4, 11))]),
]


def hex_lines(image, cuts):
    lines = []
    zone_now = None
    for (zone, addr, data) in image:
        if zone != zone_now:
            lines.append(zone_record(zone))
            zone_now = zone
        lines += data_records(addr, data, cuts)
    lines.append(EOF)
    return lines


def expected_hash(image):
    """SHA-256 over the data areas in ascending address order (contiguous pieces form one area)."""
    pieces = sorted(image, key=lambda t: (t[0] << 16) + t[1])
    h = hashlib.sha256()
    for (_, _, data) in pieces:
        h.update(data)
    return h.digest()


class MemFS:
    def __init__(self):
        self.files = {}
        self.written = {}

    def open(self, path, mode="r"):
        fs = self

        class F:
            def __init__(self):
                if "w" in mode:
                    fs.written[path] = b"" if "b" in mode else ""

            def __enter__(self):
                return self

            def __exit__(self, *a):
                return False

            def __iter__(self):
                return iter([ln + "\n" for ln in fs.files[path]])

            def read(self):
                return "\n".join(fs.files[path])

            def write(self, s):
                fs.written[path] += s

            def close(self):
                pass
        if "w" not in mode and path not in self.files:
            raise FileNotFoundError(path)
        return F()


@obligation(tier="quick", parts=len(IMAGES), timeout=200, part_names=lambda i: IMAGES[i][0],
            bounds="9 catalogue images (partition); a symbolic cut position 1..40 (T: 1..100) and a second one derived from it (k+1 | 2k+1 | 255) decide "
                   "where every area is cut into records; the same image is hashed with these cuts and with no cuts",
            examples=[(i, dict(k1=3, k2=1)) for i in range(len(IMAGES))])
def app_hash(k1: int, k2: int) -> bool:
    """
    pre: 1 <= k1 <= KMAX and 0 <= k2 <= 2
    post: _
    """
    from sim.base import _realize
    k1 = _realize(k1)                # the cut positions select a concrete file: let the solver enumerate them here
    k2 = [k1 + 1, 2 * k1 + 1, 255][_realize(k2)]
    name, image = IMAGES[part()]
    fs = MemFS()
    from sim.base import c_boundary
    # (building the files is harness code on concrete data: run it natively as well)
    fs.files["/img/cut.hex"] = c_boundary(hex_lines)(image, [k1, k2])
    fs.files["/img/whole.hex"] = c_boundary(hex_lines)(image, [])
    saved = hp.__dict__.get("open")
    hp.open = fs.open
    try:
        from sim.base import c_boundary
        # the files are concrete once the cut points are chosen: parser and SHA-256 run natively
        a = c_boundary(lu.compute_app_hash)("/img/cut.hex")
        b = c_boundary(lu.compute_app_hash)("/img/whole.hex")
    except Exception as e:
        reraise_control_flow(e)
        return False
    finally:
        if saved is None:
            del hp.open
        else:
            hp.open = saved
    want = expected_hash(image)
    return a == want and b == want


# ------------------------------------------------------------------ one-time signing

class _Sk:
    counter = [0]

    def __init__(self):
        _Sk.counter[0] += 1
        self.secret = b"SECRET-%d-" % _Sk.counter[0] + pat(8, _Sk.counter[0])

    def get_verifying_key(self):
        sk = self

        class Vk:
            def to_string(self, kind):
                assert kind == "uncompressed"
                return b"\x04PUB-OF-" + hashlib.sha256(sk.secret).digest()
        return Vk()

    def sign_digest(self, digest, sigencode=None):
        assert sigencode == "sigencode_der"
        return b"SIG(" + hashlib.sha256(self.secret).digest()[:8] + b"," + bytes(digest) + b")"


class _EcdsaStub:
    SECP256k1 = "secp256k1"

    class util:
        sigencode_der = "sigencode_der"

    generated = []

    class SigningKey:
        @staticmethod
        def generate(curve=None):
            assert curve == "secp256k1"
            sk = _Sk()
            _EcdsaStub.generated.append(sk)
            return sk


IMAGE_SETS = [
    ["/a/app.hex"], ["/a/app.hex", "/a/ui.hex"], ["/a/app.hex", "/b/app.hex"], ["/a/app.hex", "/b/app.hex", "/c/app.hex"],
    ["/a/ui.hex", " /a/app.hex "],
    # lists with an empty entry (stray commas): the tool may refuse them, but whatever it writes must be right
    ["/a/app.hex", "", "/b/app.hex", "/c/app.hex"], ["", "/a/app.hex", "/b/app.hex"], ["/a/app.hex", "/b/app.hex", ""],
]


def run_signonetime(fs, apps, pubpath):
    _EcdsaStub.generated = []
    saved = (signonetime.ecdsa, signonetime.__dict__.get("open"), hp.__dict__.get("open"), signonetime.info, real_sys.argv)
    signonetime.ecdsa = _EcdsaStub
    signonetime.open = fs.open
    hp.open = fs.open
    signonetime.info = lambda *a, **k: None
    real_sys.argv = ["signonetime", "-a", ",".join(apps), "-p", pubpath]
    code = None
    try:
        signonetime.main()
    except SystemExit as e:
        code = e.code
    finally:
        signonetime.ecdsa = saved[0]
        for mod, val in ((signonetime, saved[1]), (hp, saved[2])):
            if val is None:
                if "open" in mod.__dict__:
                    del mod.open
            else:
                mod.open = val
        signonetime.info = saved[3]
        real_sys.argv = saved[4]
    return code, list(_EcdsaStub.generated)


@obligation(tier="quick", timeout=200,
            bounds="image sets: 8 catalogue sets of 1..3 images (same file name in different directories, names with blanks, lists with an empty entry) - symbolic "
                   "selection; each image a different catalogue image; two consecutive runs",
            examples=[(0, dict(s=i, shift=1)) for i in range(len(IMAGE_SETS))])
def one_time(s: int, shift: int) -> bool:
    """
    pre: 0 <= s < len(IMAGE_SETS)
    pre: 0 <= shift <= 3
    post: _
    """
    from sim.base import c_boundary

    def body(s, shift):
        apps = IMAGE_SETS[s]
        fs = MemFS()
        images = {}
        for j, a in enumerate(apps):
            if a.strip() == "":
                continue
            img = IMAGES[(j + shift) % len(IMAGES)][1]
            images[a.strip()] = img
            fs.files[a.strip()] = hex_lines(img, [5])
        code, gen = run_signonetime(fs, apps, "/out/pub.hex ")
        stray = any(a.strip() == "" for a in apps)
        if len(gen) > 1 or (len(gen) != 1 and not (stray and code != 0)):
            return False
        if code != 0 and not stray:
            return False
        if len(gen) == 0:
            return fs.written == {}            # refused before anything happened
        sk = gen[0]
        want = {"/out/pub.hex": sk.get_verifying_key().to_string("uncompressed").hex().encode()}
        for a, img in images.items():
            want[a + ".sig"] = sk.sign_digest(expected_hash(img), sigencode="sigencode_der").hex().encode()
        if code != 0:
            # a refused run: every file it did write is the right one for that image / key
            for path, content in fs.written.items():
                if want.get(path) != content:
                    return False
            return True
        if fs.written != want:
            return False
        # the secret is written nowhere
        for content in fs.written.values():
            if sk.secret in content or sk.secret.hex().encode() in content:
                return False
        # a second run uses a fresh key
        fs2 = MemFS()
        fs2.files = fs.files
        code2, gen2 = run_signonetime(fs2, apps, "/out/pub.hex")
        return code2 == 0 and len(gen2) == 1 and gen2[0].secret != sk.secret and fs2.written["/out/pub.hex"] != fs.written["/out/pub.hex"]
    # everything is concrete once the set is selected: run natively (files, argparse, hashing)
    return c_boundary(body)(s, shift)


@obligation(tier="quick", parts=4, timeout=120,
            part_names=["signapp hash", "signapp message", "signapp message -o (new file)", "signapp message -o (onto the authorization of another image)"],
            bounds="signapp's hash / message operations on the 9 catalogue images (symbolic selection): the printed hash / the hash inside "
                   "the authorization message / the hash and iteration in the authorization file written with -o - also when that file "
                   "already holds the authorization of another image - is SHA-256 over the areas in address order",
            examples=[(0, dict(i=0)), (1, dict(i=4)), (0, dict(i=2)), (2, dict(i=1)), (3, dict(i=3)), (3, dict(i=0))])
def signapp_ops(i: int) -> bool:
    """
    pre: 0 <= i < len(IMAGES)
    post: _
    """
    from sim.base import c_boundary
    p = part()
    op = "hash" if p == 0 else "message"

    def body(i):
        import json as real_json
        import admin.signer_authorization as sa
        fs = MemFS()
        fs.files["/img/app.hex"] = hex_lines(IMAGES[i][1], [7])
        out = "/out/auth.json"
        if p == 3:
            other = expected_hash(IMAGES[(i + 1) % len(IMAGES)][1]).hex()
            fs.files[out] = [real_json.dumps({"version": 1, "signer": {"hash": other, "iteration": 3},
                                              "signatures": ["3006020101020102"]})]
        printed = []
        saved = (signapp.info, hp.__dict__.get("open"), real_sys.argv, signapp.isfile, sa.__dict__.get("open"))
        signapp.info = lambda s, *a, **k: printed.append(str(s))
        hp.open = fs.open
        sa.open = fs.open
        signapp.isfile = lambda path: path in fs.files or path in fs.written
        real_sys.argv = ["signapp", op, "-a", "/img/app.hex"] + (["-i", "7"] if op == "message" else []) + (["-o", out] if p >= 2 else [])
        code = None
        try:
            signapp.main()
        except SystemExit as e:
            code = e.code
        finally:
            signapp.info = saved[0]
            signapp.isfile = saved[3]
            for mod, val in ((hp, saved[1]), (sa, saved[4])):
                if val is None:
                    if "open" in mod.__dict__:
                        del mod.open
                else:
                    mod.open = val
            real_sys.argv = saved[2]
        h = expected_hash(IMAGES[i][1]).hex()
        text = "\n".join(printed)
        if code != 0:
            return False
        if op == "hash":
            return ("Computed hash: " + h) in text
        if p == 1:
            return ("RSK_powHSM_signer_%s_iteration_7" % h) in text
        # -o: the file written holds THIS image's hash and the iteration given (a fresh authorization: no signatures)
        if out not in fs.written:
            return False
        doc = real_json.loads(fs.written[out])
        return doc.get("signer") == {"hash": h, "iteration": 7} and doc.get("signatures") == [] and doc.get("version") == 1
    return c_boundary(body)(i)
