"""Oracle for C02: which verdicts docs/protocol.md (docs/protocol-v1.md) admit for a request.

Written from the documents only.  Where the documents leave a choice (precedence between two
errors, strings that bytes.fromhex tolerates, 5.0 as a version) the SET encodes exactly that
freedom, so a conforming implementation is never flagged.  'accept' = the request goes to
the device; any other member is an error code that must come with NO device exchange.
"""
ACCEPT = "accept"

HEXDIGITS = "0123456789abcdefABCDEF"
ASCII_WS = " \t\n\r\x0b\x0c"


def hex_class(s, nbytes=None):
    """'valid' | 'invalid' | 'either' for a value that should be a non-empty hex string
    (of exactly nbytes bytes if given)."""
    if type(s) is not str:
        return "invalid"
    has_ws = False
    n = 0
    for ch in s:
        if ch in HEXDIGITS:
            n += 1
        elif ch in ASCII_WS:
            has_ws = True
        else:
            return "invalid"
    if n == 0 or n % 2 != 0:
        return "invalid" if not has_ws else "either_or_invalid"
    if nbytes is not None and n != 2 * nbytes:
        return "invalid"
    return "either" if has_ws else "valid"


def is_int(x):
    return type(x) is int   # JSON booleans are not integers


def keyid_ok(k, nelements=5):
    """'m/' followed by exactly 5 elements: decimal 0..2^31-1 optionally followed by a quote."""
    if type(k) is not str or len(k) < 3 or k[:2] != "m/":
        return False
    parts = k[2:].split("/")
    if len(parts) != nelements:
        return False
    for p in parts:
        if len(p) == 0:
            return False
        if p[-1] == "'":
            p = p[:-1]
        if len(p) == 0:
            return False
        for ch in p:
            if ch not in "0123456789":
                return False
        # value range (leading zeros are harmless)
        if int(p) >= 2 ** 31:
            return False
    return True


def _merge(errs, code, cls):
    """cls: 'valid' -> nothing; 'invalid' -> code is admissible and acceptance is not;
    'either' -> code admissible, acceptance still possible."""
    if cls == "valid":
        return
    errs.add(code)
    if cls in ("invalid", "either_or_invalid"):
        errs.add("!")      # marker: acceptance not admissible


def auth_class(auth):
    if type(auth) is not dict:
        return "invalid"
    worst = "valid"

    def bump(c):
        nonlocal worst
        if c in ("invalid", "either_or_invalid"):
            worst = "invalid"
        elif c == "either" and worst == "valid":
            worst = "either"
    if "receipt" not in auth:
        return "invalid"
    bump(hex_class(auth["receipt"]))
    if "receipt_merkle_proof" not in auth:
        return "invalid"
    pr = auth["receipt_merkle_proof"]
    if type(pr) is not list or len(pr) == 0:
        return "invalid"
    for node in pr:
        bump(hex_class(node))
    return worst


def message_class_tx(msg, tx_decodable):
    """authorized message: exactly the legacy or the segwit field set."""
    if type(msg) is not dict:
        return "invalid"
    worst = "valid"

    def bump(c):
        nonlocal worst
        if c in ("invalid", "either_or_invalid"):
            worst = "invalid"
        elif c == "either" and worst == "valid":
            worst = "either"
    mode = msg.get("sighashComputationMode")
    if type(mode) is not str or mode not in ("legacy", "segwit"):
        return "invalid"
    want = {"sighashComputationMode", "tx", "input"}
    if mode == "segwit":
        want = want | {"witnessScript", "outpointValue"}
    if set(msg.keys()) != want:
        return "invalid"
    bump(hex_class(msg["tx"]))
    if not is_int(msg["input"]):
        return "invalid"
    if not (0 <= msg["input"] <= 0xffffffff):
        bump("either")      # an index the device cannot take: rejecting (-102) or relaying are both admissible
    if mode == "segwit":
        bump(hex_class(msg["witnessScript"]))
        ov = msg["outpointValue"]
        if not is_int(ov) or ov <= 0 or ov > 0xffffffffffffffff:
            return "invalid"
    if worst != "invalid" and not tx_decodable(msg["tx"]):
        return "invalid"
    return worst


def allowed_v5(req, tx_decodable, header_decodable=lambda h: False):
    """Set of admissible verdicts for protocol v5.  header_decodable(hex) says whether a block string is a
    decodable RSK header (only then MUST the request be accepted; otherwise -204 / -205 are admissible too,
    with or without the device having been asked)."""
    if type(req) is not dict:
        return {-901}
    if "command" not in req:
        return {-902}
    cmd = req["command"]
    if cmd != "version" and "version" not in req:
        return {-902}
    if "version" in req:
        v = req["version"]
        if type(v) is float and v == 5:
            pass_version = "either"   # 5.0 compares equal to 5; the documents say 'integer'
        elif is_int(v) and v == 5:
            pass_version = "valid"
        else:
            pass_version = "invalid"
    else:
        pass_version = "valid"
    KNOWN = ("version", "sign", "getPubKey", "advanceBlockchain", "resetAdvanceBlockchain", "blockchainState",
             "updateAncestorBlock", "blockchainParameters", "signerHeartbeat", "uiHeartbeat")
    known = type(cmd) is str and cmd in KNOWN
    if pass_version == "invalid":
        return {-904} if known else {-904, -903}
    out = set()
    if pass_version == "either":
        out.add(-904)
    if not known:
        return out | {-903}
    errs = set()
    if cmd in ("version", "resetAdvanceBlockchain", "blockchainState", "blockchainParameters"):
        pass
    elif cmd == "getPubKey":
        if not keyid_ok(req.get("keyId")):
            errs |= {-103, "!"}
    elif cmd == "sign":
        if not keyid_ok(req.get("keyId")):
            errs |= {-103, "!"}
        msg = req.get("message")
        if type(msg) is dict and "hash" in msg:
            # non-authorized format: exactly {"hash": 32-byte hex}; the documents show no auth here
            if len(msg) != 1:
                errs |= {-102, "!"}
            else:
                _merge(errs, -102, hex_class(msg["hash"], 32))
            if "auth" in req:
                c = auth_class(req["auth"])
                if c != "valid":
                    errs.add(-101)       # an implementation may reject a malformed auth or ignore it
        else:
            if "auth" not in req:
                errs |= {-101, "!"}
            else:
                _merge(errs, -101, auth_class(req["auth"]))
            if "message" not in req:
                errs |= {-102, "!"}
            else:
                _merge(errs, -102, message_class_tx(msg, tx_decodable))
    elif cmd == "advanceBlockchain":
        blocks = req.get("blocks")
        blocks_ok = type(blocks) is list and len(blocks) > 0 and all(type(b) is str for b in blocks)
        if not blocks_ok:
            errs |= {-204, "!"}
        elif not all(header_decodable(b) for b in blocks):
            errs |= {-204}
        bros = req.get("brothers")
        if type(bros) is not list or (blocks_ok and len(bros) != len(blocks)):
            errs |= {-205, "!"}
        elif not blocks_ok and type(blocks) is list and len(bros) != len(blocks):
            errs |= {-205}
        else:
            worst = "valid"
            for bl in bros:
                if type(bl) is not list:
                    worst = "invalid"
                    break
                for b in bl:
                    c = hex_class(b)
                    if c in ("invalid", "either_or_invalid"):
                        worst = "invalid"
                    elif (c == "either" or not header_decodable(b)) and worst == "valid":
                        worst = "either"
            _merge(errs, -205, worst)
    elif cmd == "updateAncestorBlock":
        blocks = req.get("blocks")
        if not (type(blocks) is list and len(blocks) > 0 and all(type(b) is str for b in blocks)):
            errs |= {-204, "!"}
        elif not all(header_decodable(b) for b in blocks):
            errs |= {-204}
    elif cmd == "signerHeartbeat":
        if "udValue" not in req:
            errs |= {-301, "!"}
        else:
            _merge(errs, -301, hex_class(req["udValue"], 16))
    elif cmd == "uiHeartbeat":
        if "udValue" not in req:
            errs |= {-301, "!"}
        else:
            _merge(errs, -301, hex_class(req["udValue"], 32))
    must_reject = "!" in errs
    errs.discard("!")
    out |= errs
    if not must_reject:
        out.add(ACCEPT)
    return out


def allowed_v1(req):
    """Protocol v1: every error is -2 except a wrong version (-666)."""
    if type(req) is not dict:
        return {-2}
    if "command" not in req:
        return {-2}
    cmd = req["command"]
    if cmd != "version" and "version" not in req:
        return {-2}
    out = set()
    if "version" in req:
        v = req["version"]
        if (type(v) is float and v == 1) or v is True:
            out.add(-666)        # 1.0 and true compare equal to 1; the documents say "integer"
        elif not (is_int(v) and v == 1):
            known = type(cmd) is str and cmd in ("version", "sign", "getPubKey")
            return {-666} if known else {-666, -2}
    if not (type(cmd) is str and cmd in ("version", "sign", "getPubKey")):
        return out | {-2}
    errs = set()
    if cmd in ("sign", "getPubKey"):
        if not keyid_ok(req.get("keyId")):
            errs |= {-2, "!"}
    if cmd == "sign":
        if "message" not in req:
            errs |= {-2, "!"}
        else:
            _merge(errs, -2, hex_class(req["message"], 32))
    must_reject = "!" in errs
    errs.discard("!")
    out |= errs
    if not must_reject:
        out.add(ACCEPT)
    return out
