"""Property -> harness modules, assumptions (stubs / trusted base) and explanation."""

COMMON_ASSUMPTIONS = [
    "CrossHair 0.0.110 models Python semantics faithfully; z3 is sound",
    "loggers and string formatting of log/exception messages are stubbed with empty bodies (formatting is not the subject)",
]

NOT_APPLICABLE = {
    "C12": "quantifies over OS thread / socket schedules of socketserver serving real TCP connections; CrossHair executes one "
           "Python thread deterministically and cannot make a schedule symbolic, and an SMT model of 'a single-threaded accept "
           "loop' would only restate the assumption instead of checking the code (DESIGN.md section 7)",
}

PROPERTIES = {
    "C10": {
        "modules": ["harness.c10"],
        "explanation": "",
        "assumptions": COMMON_ASSUMPTIONS + [
            "file system = in-memory model bound to open / os.path.isfile inside ledger.pin: opening for writing truncates; a failing "
            "operation raises OSError and has no effect; a write is all-or-nothing",
            "crash = the process dies after N file/device operations: modelled by a BaseException at the next operation, all later "
            "operations have no effect",
            "a link fault / error status on the change command means the device did NOT apply the new PIN (the ambiguous case 'applied but "
            "the acknowledgement was lost' cannot be resolved by any host-side protocol and is outside the claim)",
            "random.choice inside ledger.pin is replaced by harness-chosen indices; device = sim/ledger.py with a real PIN comparison",
        ],
        "level_text": "bounded symbolic verification of start / change / restart histories: the failing file operation and the crash position "
                      "are solver variables, platform x start state x device reaction are partitions; PIN policy and generator decided for "
                      "all byte values two positions at a time",
        "level_note": "trusted: CrossHair/z3, the file-system and crash model, the simulated device",
    },
    "C03": {
        "modules": ["harness.c03"],
        "explanation": "",
        "assumptions": COMMON_ASSUMPTIONS + [
            "'as long as the device keeps to its protocol' = sim/ledger.py, conforming answers of the documented lengths",
            "symbolic mode: the json module inside comm.server is an environment stub (loads returns the harness-built request or raises "
            "JSONDecodeError / RecursionError / ValueError / UnicodeDecodeError-for-bytes-input; dumps records the reply object); "
            "replay uses the real json end to end with a real request line",
            "raw-byte level (readline, strip, decode) is covered by the catalogue of 9 lines, not by symbolic bytes",
            "socket-level behaviour (accept loop, shutdown thread) is outside: the assertion is on what leaves _RequestHandler.handle, "
            "which _TCPServerRequestHandler maps 1:1 onto shutdown / keep serving",
            "one inductive step from a symbolic pending-reconnect flag stands for histories of any length (the flag and the device are the "
            "only cross-request state)",
        ],
        "level_text": "bounded symbolic verification of the request handler: integer fields over all of Z, typed deviations of every field, "
                      "catalogues of malformed blocks / oversized fields / hostile command values; oracle = one reply line with an integer errorcode and no shutdown",
        "level_note": "trusted: CrossHair/z3, the json environment stub (symbolic mode), the simulated device",
    },
    "C02": {
        "modules": ["harness.c02"],
        "explanation": "",
        "assumptions": COMMON_ASSUMPTIONS + [
            "oracle = harness/spec.py, a reading of docs/protocol.md and docs/protocol-v1.md that returns the SET of admissible verdicts "
            "(the documents leave precedence between simultaneous errors, whitespace inside hex strings and 5.0-as-version open)",
            "'accepted' = passes the generic gate, the per-command validators and the ledger-side second stage of sign; what the APDU layer "
            "later does with an accepted request (e.g. an undecodable block => -204 after INIT) is not a classification matter",
            "symbolic strings are ASCII and <= 4 characters; one deviating field at a time (lists: every element independently)",
            "device = sim/ledger.py, conforming; block / transaction helpers run natively on concrete catalogue entries",
        ],
        "level_text": "bounded symbolic verification of handle_request against a specification oracle: the deviating value (type, integer "
                      "value over Z, string contents) is decided by the solver per (command, field) partition",
        "level_note": "trusted: CrossHair/z3, harness/spec.py as the reading of the documents, the simulated device",
    },
    "C13": {
        "modules": ["harness.c13"],
        "explanation": "",
        "assumptions": COMMON_ASSUMPTIONS + [
            "device = sim/ledger.py; device data (key / hash / difficulty / flag / network / heartbeat / signature bytes) are solver variables",
            "hex rendering of device bytes is modelled lazily (LazyHex = 'the hex of these bytes') because rendering realises symbolic bytes; "
            "replay uses the real bytes.hex()",
        ],
        "level_text": "bounded symbolic verification: all 2^288 difficulties, all flag/network bytes, all DER byte strings up to the bound; "
                      "oracle = documented field names + firmware selectors",
        "level_note": "trusted: CrossHair/z3, the simulated device, formatting stubs",
    },
    "C11": {
        "modules": ["harness.c11"],
        "explanation": "",
        "assumptions": COMMON_ASSUMPTIONS + [
            "link faults are raised by the transport exactly as ledgerblue raises them: BaseException('Error while writing'), "
            "OSError('read error'), CommException('Timeout', 0x6F00); a failed connect is CommException from getDongle",
            "the two exit exchanges of uiHeartbeat, where the code expects a link error (USB re-enumeration), are excluded "
            "from the points at which the link may fail",
            "a second fault at the IS_ONBOARD exchange of the repair's bring-up is outside the property's quantifier "
            "(reconnection outcomes are: ok | connect fails k times then ok) and outside this claim",
            "block / transaction helpers run natively on the concrete catalogue entries",
        ],
        "level_text": "bounded symbolic verification of two- and three-request histories on one real protocol object: fault kind, "
                      "follow-up request and reconnection scenario are solver variables, fault position is a partition",
        "level_note": "trusted: CrossHair/z3, the simulated transport/device, formatting stubs",
    },
    "C04": {
        "modules": ["harness.c04"],
        "explanation": "",
        "assumptions": COMMON_ASSUMPTIONS + [
            "device = sim/ledger.py (conforming answers of the documented lengths); the outcome injected at exchange k replaces the device's answer",
            "status words are raised as ledgerblue does: CommException('Invalid status ..', sw); 0x9000/0x61xx/0x6Cxx are not faults",
            "struct.pack in ledger.hsm2dongle replaced by an equivalent list-based packer; hex()/logger formatting stubbed",
        ],
        "level_text": "bounded symbolic verification: for every command and every exchange step the status word (all 65536 values), "
                      "the fault kind and the answer opcode are solver variables; the oracle is docs/protocol.md plus the firmware's error names",
        "level_note": "trusted: CrossHair/z3, the simulated device, the named-cause table transcribed from firmware headers",
    },
    "C09": {
        "modules": ["harness.c09"],
        "explanation": "",
        "assumptions": COMMON_ASSUMPTIONS + [
            "device = sim/ledger.py (Ledger UI, TCP and SGX personalities); its mode / onboard / version / retries / echo / unlock bytes are solver variables",
            "socketserver inside comm.server is stubbed: 'starts serving' = TCPServer.run reaches serve_forever",
            "PIN object = FixedPin stand-in (the PIN file is C10's subject); time.sleep and hid.hidapi_exit are no-ops",
            "platform classes: HSM2Dongle (Ledger), HSM2DongleTCP, HSM2DongleSGX over the same transport stub",
        ],
        "level_text": "bounded symbolic verification: every device configuration byte (mode, onboard flag, version triples, retries, unlock "
                      "answer, post-unlock mode) is a solver variable; the oracle is the property statement written as a predicate on the "
                      "APDU log and on whether the manager starts serving",
        "level_note": "trusted: CrossHair/z3, the simulated UI/signer device (sim/ledger.py), formatting stubs",
    },
}
