"""Property -> harness modules, assumptions (stubs / trusted base) and explanation."""

COMMON_ASSUMPTIONS = [
    "CrossHair 0.0.110 models Python semantics faithfully; z3 is sound",
    "loggers and string formatting of log/exception messages are stubbed with empty bodies (formatting is not the subject)",
]

NOT_APPLICABLE = {
    "C12": "quantifies over OS thread / socket schedules of socketserver serving real TCP connections; CrossHair executes one "
           "Python thread deterministically and cannot make a schedule symbolic, and an SMT model of 'a single-threaded accept "
           "loop' would only restate the assumption instead of checking the code (DESIGN.md section 7)",
}

PROPERTIES = {
    "C11": {
        "modules": ["harness.c11"],
        "explanation": "",
        "assumptions": COMMON_ASSUMPTIONS + [
            "link faults are raised by the transport exactly as ledgerblue raises them: BaseException('Error while writing'), "
            "OSError('read error'), CommException('Timeout', 0x6F00); a failed connect is CommException from getDongle",
            "the two exit exchanges of uiHeartbeat, where the code expects a link error (USB re-enumeration), are excluded "
            "from the points at which the link may fail",
            "a second fault at the IS_ONBOARD exchange of the repair's bring-up is outside the property's quantifier "
            "(reconnection outcomes are: ok | connect fails k times then ok) and outside this claim",
            "block / transaction helpers run natively on the concrete catalogue entries",
        ],
        "level_text": "bounded symbolic verification of two- and three-request histories on one real protocol object: fault kind, "
                      "follow-up request and reconnection scenario are solver variables, fault position is a partition",
        "level_note": "trusted: CrossHair/z3, the simulated transport/device, formatting stubs",
    },
    "C04": {
        "modules": ["harness.c04"],
        "explanation": "",
        "assumptions": COMMON_ASSUMPTIONS + [
            "device = sim/ledger.py (conforming answers of the documented lengths); the outcome injected at exchange k replaces the device's answer",
            "status words are raised as ledgerblue does: CommException('Invalid status ..', sw); 0x9000/0x61xx/0x6Cxx are not faults",
            "struct.pack in ledger.hsm2dongle replaced by an equivalent list-based packer; hex()/logger formatting stubbed",
        ],
        "level_text": "bounded symbolic verification: for every command and every exchange step the status word (all 65536 values), "
                      "the fault kind and the answer opcode are solver variables; the oracle is docs/protocol.md plus the firmware's error names",
        "level_note": "trusted: CrossHair/z3, the simulated device, the named-cause table transcribed from firmware headers",
    },
    "C09": {
        "modules": ["harness.c09"],
        "explanation": "",
        "assumptions": COMMON_ASSUMPTIONS + [],
        "level_text": "bounded symbolic verification: every device configuration byte (mode, onboard flag, version triples, retries) is a solver variable; "
                      "the oracle is the property statement written as a predicate on the APDU log and on whether bring-up returns",
        "level_note": "trusted: CrossHair/z3, the simulated UI/signer device (harness/sim), formatting stubs",
    },
}
