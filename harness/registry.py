"""Property -> harness modules, assumptions (stubs / trusted base) and explanation."""

COMMON_ASSUMPTIONS = [
    "CrossHair 0.0.110 models Python semantics faithfully; z3 is sound",
    "loggers and string formatting of log/exception messages are stubbed with empty bodies (formatting is not the subject)",
]

NOT_APPLICABLE = {}

PROPERTIES = {
    "C12": {
        "modules": ["harness.c12"],
        "explanation": "Partial claim, schedule-bounded: 2 to 4 clients (thorough: 5; the statement quantifies over 2..16), simulated sockets instead of TCP, "
                       "preemption only at the decision points (select, device exchange, socket read / write) - a race that needs a "
                       "preemption inside other code, kernel-level socket behaviour and forking servers are outside the claim.",
        "assumptions": COMMON_ASSUMPTIONS + [
            "`socket`, `_ServerSelector` and `os` inside the standard-library socketserver module are replaced by an in-memory listening "
            "socket / connection sockets / selector (the socketserver classes themselves - serve_forever, process_request, "
            "StreamRequestHandler, ThreadingMixIn if the code uses it - are the real ones)",
            "threads started by the code under test are real threads run one at a time between decision points by the harness' scheduler; "
            "threading.Condition.wait / notify are rebound for the run (so Future.result, Event.wait, Queue.get are scheduler-visible waits; "
            "time is not modelled: a wait's time-out may expire at any decision point); a thread blocked in anything else (a contended lock, "
            "a C-level queue) is recognised by its frame not moving for 50 ms and is not runnable until it reaches a decision point",
            "all clients have connected and sent their complete request line before the server starts accepting (the 'simultaneously "
            "connected' situation); clients that connect later, partial lines and disconnecting clients are outside the bound",
            "device = sim/ledger.py with 40-byte chunk requests (authorized sign: about 30 exchanges); requests are catalogue entries, the reference "
            "for each order is the same requests served one after the other by one fresh manager; in that reference run every request is "
            "additionally re-run by a manager of its own against a device replaying the recorded answers of its block (same exchanges, "
            "same reply required: the reply is built from the request's own exchanges); two request sets use a device whose state moves "
            "with every block of an advance and that abandons a two-block advance half way; one set has a uiHeartbeat, one a legacy-mode "
            "manager with a write error; in the reference every exchange must come from the serving thread and a block may start "
            "with a re-opening of the link only after a device-error reply",
            "replies_not_crossed: the protocol object is a stub whose outcome per client is a solver variable (6 kinds)",
            "'fatal' sets: the device answers a sign command with status 0x6F01 (reply -906, shutdown); clients accepted later must "
            "receive nothing and the device log holds nothing but the served requests' blocks",
            "'tcpslow' set: TCP dongle class over a byte-stream transport in which a late answer stays behind if the code gives the "
            "socket a time-out; everywhere else the simulated transport answers each exchange atomically",
        ],
        "level_text": "bounded symbolic exploration of schedules: the schedule is a vector of 14 solver variables consumed at the decision "
                      "points of the real server code; oracle = linearisability with contiguous device blocks against the sequential runs + per-request isolation replay",
        "level_note": "trusted: CrossHair/z3, the simulated socket layer and scheduler, the simulated device",
        "design_ref": "DESIGN.md section 7, 'C12 as built'",
        "technique": "CrossHair symbolic execution of the real accept loop / request handler with solver-chosen thread schedules "
                     "(controlled scheduler over real threads), z3",
    },
    "C15": {
        "modules": ["harness.c15"],
        "explanation": "Partial claim: the plumbing between gathering and verification. That ECDSA / SHA-256 / X.509 reject altered data "
                       "(the second sentence of the statement, as far as it rests on crypto soundness) is outside the claim.",
        "assumptions": COMMON_ASSUMPTIONS + [
            "crypto is uninterpreted (token algebra of C06): 'verifies' means the verifier is asked about exactly the device's (key, tweak, "
            "message, signature) tokens; an altered item makes the verifier see a different token, whose verdict is an independent symbolic boolean",
            "device = sim/ledger.py attestation handlers (UI: app hash / UD value / paged message / signature; signer: signature / paged "
            "message / paged envelope / app hash, legacy unframed message) and a simulated admin app for the endorsement setup",
            "SGX: the envelope is built by the harness from catalogue parts (own DER encoder as oracle); once the selections are made it is "
            "concrete and sgx.envelope / admin.sgx_attestation / the ecdsa conversions run natively",
            "unlocking, UD-value retrieval from a node and file I/O are stubbed (the UD value is given as 32-byte hex)",
        ],
        "level_text": "bounded symbolic verification of the gathering code paths (paging, framing, certificate augmentation, envelope "
                      "conversion) against the roles the verifying half expects, crypto uninterpreted",
        "level_note": "trusted: CrossHair/z3, the simulated device / admin app, the token algebra; crypto soundness is NOT covered",
    },
    "C19": {
        "modules": ["harness.c19"],
        "explanation": "",
        "assumptions": COMMON_ASSUMPTIONS + [
            "images are 8 catalogue entries (areas / zones / gaps / all-zero areas / out-of-order areas); only the record cut positions and the "
            "selections are solver variables: once they are chosen the files are concrete and ledgerblue's IntelHexParser, argparse and "
            "SHA-256 run natively (library code and hashing are outside the claim)",
            "ecdsa inside signonetime is a token algebra (generate() gives a fresh secret token, sign_digest / verifying key are tagged "
            "byte strings); 'the signature verifies under the public key' therefore means: it is sign(sk, hash) for the sk whose pub(sk) is written",
            "files are held in memory (open inside ledgerblue.hexParser / signonetime is rebound); real file I/O is outside the claim",
        ],
        "level_text": "bounded symbolic verification with a concrete image catalogue: record cut positions and image-set selection symbolic; "
                      "oracle = SHA-256 over areas in address order, one signature per image by the single fresh key, secret never written",
        "level_note": "trusted: CrossHair/z3, ledgerblue's parser, hashlib, the ecdsa token algebra, the in-memory file system",
    },
    "C14": {
        "modules": ["harness.c14"],
        "selfchecks": ["engine/selfcheck_shim.py"],
        "explanation": "",
        "assumptions": COMMON_ASSUMPTIONS + [
            "the claim is RELATIVE to shim/bitcoin/core (python-bitcoinlib 0.12.2 semantics re-implemented without bytes/int subclasses and "
            "with arithmetic instead of shifts); the shim is validated on every run by the repository's own tests/comm/test_bitcoin.py samples",
            "inside comm.bitcoin the name `bytes` is rebound so that bytes.fromhex(<harness hex model>) yields the symbolic byte list; "
            "the hex codec itself is outside the claim",
            "scripts with more than 2 (thorough: 3) operations, pushes with more than 2 symbolic bytes, and transactions beyond the 5 "
            "input/output shapes are outside the bound",
        ],
        "level_text": "bounded symbolic verification of the transaction transformation: script shape as partition with symbolic push contents / "
                      "opcode values, 24 symbolic frame bytes, truncation offset symbolic; oracle = own script reader and own serialiser",
        "level_note": "trusted: CrossHair/z3, the bitcoin.core shim",
    },
    "C08": {
        "modules": ["harness.c08"],
        "explanation": "",
        "assumptions": COMMON_ASSUMPTIONS + [
            "assume-guarantee: certificate loading and chain validation are replaced by a summary returning any result map that C06 / C07 / "
            "C16 allow (target present or not, valid or not, with harness-chosen signed message and tweak)",
            "secp256k1 public keys in admin.attestation_utils are tokens; hashlib is real (concrete inputs); files are in memory; "
            "info/head output is captured instead of written to stdout; the root of trust is a stub that parses / self-validates or not",
            "one input group symbolic per partition (UI target | signer target | keys file and root)",
        ],
        "level_text": "bounded symbolic verification of both verify commands: presence / validity of targets, header (7 variants each), message "
                      "length delta -3..+3, key and keys-hash equality, keys-file variants and root validity are solver variables; oracle = "
                      "the conjunction of the statement and the documented offsets of the printed values",
        "level_note": "trusted: CrossHair/z3, the summary standing for certificate validation, key tokens",
    },
    "C07": {
        "modules": ["harness.c07"],
        "explanation": "",
        "assumptions": COMMON_ASSUMPTIONS + [
            "cryptography.x509 / ec, ecdsa and datetime inside admin.certificate_v2 are a token algebra: certificates are objects with symbolic "
            "validity bounds, signature verification is a symbolic verdict per (key, signature, data) triple, one shared symbolic verdict "
            "for every other triple; time is a symbolic integer; hashlib.sha256 stays real (its inputs are concrete)",
            "X.509 parsing, ECDSA and SHA-256 themselves are outside the claim; so is 'every single-byte corruption is rejected' (crypto soundness)",
            "C-struct parsing of the (concrete) report bodies and hex decoding run natively; report_data offsets 320 / 48+320 are computed "
            "independently from the struct layouts in sgx/envelope.py's docstrings",
            "replay re-executes the obligation with the same token algebra",
        ],
        "level_text": "bounded symbolic verification of the v2 chain logic: validity windows and the clock as symbolic integers, verdicts and "
                      "binding-hash placement symbolic, chain depth 1..3; oracle = the conjunction in the statement, failing element = first from the root",
        "level_note": "trusted: CrossHair/z3, the token algebra standing for cryptography / ecdsa / datetime",
    },
    "C16": {
        "modules": ["harness.c16"],
        "explanation": "",
        "assumptions": COMMON_ASSUMPTIONS + [
            "termination = step budget: at most 60 reads of `signed_by` per load / validation (a cycle-free graph of 3 elements needs < 20)",
            "open and json inside admin.certificate_v1 are in-memory stubs (the document is the harness-built object); element signature "
            "checks are replaced by one symbolic verdict (C06 / C07 decide the checks themselves)",
            "any exception leaving from_jsonfile counts as 'reports an error'",
            "documents with more than 3 elements (the statement mentions 12) are outside the bound; one focus group of fields is symbolic per partition",
        ],
        "level_text": "bounded symbolic verification of loading / validating / saving certificate documents of version 1 and 2: signer and name "
                      "kinds per element, field kinds, top-level kinds are solver variables; non-termination is an assertion via a step budget",
        "level_note": "trusted: CrossHair/z3, the in-memory file/json stubs",
    },
    "C06": {
        "modules": ["harness.c06"],
        "explanation": "",
        "assumptions": COMMON_ASSUMPTIONS + [
            "secp256k1, hmac and hashlib inside admin.certificate_v1 are replaced by an uninterpreted token algebra; ECDSA verification is a "
            "symbolic verdict per (key, message, signature) triple: the LOGIC around the primitives is decided for every combination of "
            "primitive outcomes; the primitives themselves (that ECDSA rejects a flipped bit, HMAC-SHA256) are outside the claim",
            "all triples other than the n right ones share ONE independent symbolic verdict (n+1 booleans instead of one per triple)",
            "replay re-executes the obligation with the same token algebra (the verdict table is part of the counterexample)",
            "element graphs with more than 3 (thorough: 4) elements are outside the bound; malformed graphs are C16's subject",
        ],
        "level_text": "bounded symbolic verification of the chain walk: every element graph up to the bound is a partition, link verdicts / "
                      "tweak declarations / key-parse failures are solver variables; oracle = the statement (all links from the root down, "
                      "right key, tweak iff declared, value = extractor of the signed message, first failing element)",
        "level_note": "trusted: CrossHair/z3, the token algebra standing for secp256k1/HMAC",
    },
    "C18": {
        "modules": ["harness.c18"],
        "explanation": "",
        "assumptions": COMMON_ASSUMPTIONS + [
            "sys.stdin / sys.stdout, getpass, os.urandom, time.sleep, output files and ecdsa.VerifyingKey are stubs inside the admin modules; "
            "operator answers and PINs are symbolic selections from catalogues (12 answers, 9 PINs incl. a Latin-1 letter)",
            "BasePin.is_valid itself is decided byte-wise in C10 (pin_policy); here its use as a gate is checked",
            "Ledger onboarding is followed up to the point where the attestation setup starts (C15)",
            "device = sim/ledger.py UI / SGX personalities",
        ],
        "level_text": "bounded symbolic verification of the admin commands: device state bytes symbolic, operator inputs symbolic selections; "
                      "oracle = predicate on the APDU log (what was sent, under which conditions, with which seed and PIN)",
        "level_note": "trusted: CrossHair/z3, the environment stubs, the simulated device",
    },
    "C17": {
        "modules": ["harness.c17"],
        "explanation": "",
        "assumptions": COMMON_ASSUMPTIONS + [
            "Python's own str(int) / int(str) are the primitives for decimal rendering and parsing in the oracle",
            "secp256k1's DER deserialiser inside admin.signer_authorization is a stub whose verdict per signature is symbolic; files are in memory",
            "Keccak-256 and ECDSA sign/verify (signapp key / eth paths) are crypto primitives: only the digest wiring is smoke-tested concretely; "
            "'signatures produced by the tool verify under the signing key' is outside the claim",
            "device = sim/ledger.py SIGNER_AUTH state machine (hash | 2-byte iteration, then signatures until authorized)",
        ],
        "level_text": "bounded symbolic verification: iteration over 0..65535 / all integers / short ASCII strings, signature counts and device "
                      "threshold symbolic; oracle = docs/signer-authorization.md text format and the firmware's message layout",
        "level_note": "trusted: CrossHair/z3, Python str/int conversions, the crypto stubs, the simulated UI",
    },
    "C05": {
        "modules": ["harness.c05"],
        "smt": ["engine/smt_rlp.py"],
        "technique": "bounded symbolic execution of the real Python code (CrossHair) with z3 deciding every path, plus a direct AST-to-z3 "
                     "bit-vector translation of the RLP length kernel (regenerated from the source on every run); counterexamples replayed concretely",
        "explanation": "Chunking of a header (any request sizes, early/late termination) is decided by harness.c01.chunk_policy "
                       "(partitions with expect_full_data=False) and chunk_long, which run the same _send_data_in_chunks.",
        "assumptions": COMMON_ASSUMPTIONS + [
            "device = sim/ledger.py block-operation state machine (bc_advance.c / bc_ancestor.c message order): INIT count BE32, per header "
            "metadata (BE16 mm payload length [| 32-byte coinbase hash]) then chunks until the RLP item is complete, optional brother list",
            "headers are generated by harness/catalog.py with its own RLP encoder, its own SHA-256 compression function (coinbase "
            "midstates) and hashlib / pycryptodome keccak for the expected hashes",
            "rlp, keccak and SHA-256 internals run natively on the concrete headers (library code is outside the claim)",
            "headers outside the generator's shapes, more than 2 blocks / 3 brothers per block are outside the bound",
        ],
        "level_text": "bounded symbolic verification of the block-operation driver: device policy (asks brothers per block, stop position and "
                      "kind, chunk size class) symbolic, block/brother lists as partitions; RLP length helper decided for every prefix",
        "level_note": "trusted: CrossHair/z3, the simulated device, the header generator, rlp/keccak/hashlib",
    },
    "C01": {
        "modules": ["harness.c01"],
        "selfchecks": ["engine/selfcheck_shim.py"],
        "explanation": "",
        "assumptions": COMMON_ASSUMPTIONS + [
            "device = sim/ledger.py: parses the sign stream the way auth.c / auth_path.c / auth_tx.c / auth_receipt.c / auth_trie.c do "
            "(path | LE32 input; LE32 total | mode | LE16 extra length | tx | extra data; RLP receipt; count | len | node ...) and "
            "rejects chunks larger than requested, bytes beyond the announced lengths and out-of-order operations",
            "the expected unsigned form of the 4 catalogue transactions is written by hand in the harness (C14 verifies the "
            "transformation itself); the claim is relative to the bitcoin.core shim",
            "inside ledger.hsm2dongle the builtin name `bytes` is rebound to a list-backed model (HB) so that .hex() for log lines and "
            "slicing do not realise symbolic content; struct.pack replaced by an equivalent list-based packer; replay uses the real ones",
            "payload sizes: chunk_policy <= 4 (thorough 6) symbolic bytes and <= 4 (6) requests, chunk_long 600 concrete bytes; receipts and "
            "proofs from the catalogue (<= 3 nodes, node sizes 1, 2, 31, 40, 255)",
        ],
        "level_text": "bounded symbolic verification, compositional: chunking decided for symbolic payload bytes and symbolic request sizes / "
                      "termination step; layout decided for all 2^32 input indices and 2^64-1 outpoint values against a device model that "
                      "parses the stream like the firmware; success iff complete consumption decided for a symbolic early-stop position",
        "level_note": "trusted: CrossHair/z3, the simulated signer as a reading of the firmware's wire format, the bitcoin.core shim",
    },
    "C10": {
        "modules": ["harness.c10"],
        "explanation": "",
        "assumptions": COMMON_ASSUMPTIONS + [
            "file system = in-memory model bound to open / os.path.isfile inside ledger.pin: opening for writing truncates; a failing "
            "operation raises OSError and has no effect; a write is all-or-nothing",
            "crash = the process dies after N file/device operations: modelled by a BaseException at the next operation, all later "
            "operations have no effect",
            "a link fault / error status on the change command means the device did NOT apply the new PIN (the ambiguous case 'applied but "
            "the acknowledgement was lost' cannot be resolved by any host-side protocol and is outside the claim)",
            "random.choice inside ledger.pin is replaced by harness-chosen indices; device = sim/ledger.py with a real PIN comparison",
        ],
        "level_text": "bounded symbolic verification of start / change / restart histories: the failing file operation and the crash position "
                      "are solver variables, platform x start state x device reaction are partitions; PIN policy and generator decided for "
                      "all byte values two positions at a time",
        "level_note": "trusted: CrossHair/z3, the file-system and crash model, the simulated device",
    },
    "C03": {
        "modules": ["harness.c03"],
        "explanation": "",
        "assumptions": COMMON_ASSUMPTIONS + [
            "'as long as the device keeps to its protocol' = sim/ledger.py, conforming answers of the documented lengths",
            "symbolic mode: the json module inside comm.server is an environment stub (loads returns the harness-built request or raises "
            "JSONDecodeError / RecursionError / ValueError / UnicodeDecodeError-for-bytes-input; dumps records the reply object); "
            "replay uses the real json end to end with a real request line",
            "raw-byte level (readline, strip, decode) is covered by the catalogue of 9 lines, not by symbolic bytes",
            "socket-level behaviour (accept loop, shutdown thread) is outside: the assertion is on what leaves _RequestHandler.handle, "
            "which _TCPServerRequestHandler maps 1:1 onto shutdown / keep serving",
            "one inductive step from a symbolic pending-reconnect flag stands for histories of any length (the flag and the device are the "
            "only cross-request state)",
        ],
        "level_text": "bounded symbolic verification of the request handler: integer fields over all of Z, typed deviations of every field, "
                      "catalogues of malformed blocks / oversized fields / hostile command values; oracle = one reply line with an integer errorcode and no shutdown",
        "level_note": "trusted: CrossHair/z3, the json environment stub (symbolic mode), the simulated device",
    },
    "C02": {
        "modules": ["harness.c02"],
        "explanation": "",
        "assumptions": COMMON_ASSUMPTIONS + [
            "oracle = harness/spec.py, a reading of docs/protocol.md and docs/protocol-v1.md that returns the SET of admissible verdicts "
            "(the documents leave precedence between simultaneous errors, whitespace inside hex strings and 5.0-as-version open)",
            "'accepted' = passes the generic gate, the per-command validators and the ledger-side second stage of sign; what the APDU layer "
            "later does with an accepted request (e.g. an undecodable block => -204 after INIT) is not a classification matter",
            "symbolic strings are ASCII and <= 4 characters; one deviating field at a time (lists: every element independently)",
            "device = sim/ledger.py, conforming; block / transaction helpers run natively on concrete catalogue entries",
        ],
        "level_text": "bounded symbolic verification of handle_request against a specification oracle: the deviating value (type, integer "
                      "value over Z, string contents) is decided by the solver per (command, field) partition",
        "level_note": "trusted: CrossHair/z3, harness/spec.py as the reading of the documents, the simulated device",
    },
    "C13": {
        "modules": ["harness.c13"],
        "explanation": "",
        "assumptions": COMMON_ASSUMPTIONS + [
            "device = sim/ledger.py; device data (key / hash / difficulty / flag / network / heartbeat / signature bytes) are solver variables",
            "hex rendering of device bytes is modelled lazily (LazyHex = 'the hex of these bytes') because rendering realises symbolic bytes; "
            "replay uses the real bytes.hex()",
        ],
        "level_text": "bounded symbolic verification: all 2^288 difficulties, all flag/network bytes, all DER byte strings up to the bound; "
                      "oracle = documented field names + firmware selectors",
        "level_note": "trusted: CrossHair/z3, the simulated device, formatting stubs",
    },
    "C11": {
        "modules": ["harness.c11"],
        "explanation": "",
        "assumptions": COMMON_ASSUMPTIONS + [
            "link faults are raised by the transport exactly as ledgerblue raises them: BaseException('Error while writing'), "
            "OSError('read error'), CommException('Timeout', 0x6F00); a failed connect is CommException from getDongle",
            "the two exit exchanges of uiHeartbeat, where the code expects a link error (USB re-enumeration), are excluded "
            "from the points at which the link may fail",
            "a second fault at the IS_ONBOARD exchange of the repair's bring-up is outside the property's quantifier "
            "(reconnection outcomes are: ok | connect fails k times then ok) and outside this claim",
            "block / transaction helpers run natively on the concrete catalogue entries",
        ],
        "level_text": "bounded symbolic verification of two- and three-request histories on one real protocol object: fault kind, "
                      "follow-up request and reconnection scenario are solver variables, fault position is a partition",
        "level_note": "trusted: CrossHair/z3, the simulated transport/device, formatting stubs",
    },
    "C04": {
        "modules": ["harness.c04"],
        "explanation": "",
        "assumptions": COMMON_ASSUMPTIONS + [
            "device = sim/ledger.py (conforming answers of the documented lengths); the outcome injected at exchange k replaces the device's answer",
            "status words are raised as ledgerblue does: CommException('Invalid status ..', sw); 0x9000/0x61xx/0x6Cxx are not faults",
            "struct.pack in ledger.hsm2dongle replaced by an equivalent list-based packer; hex()/logger formatting stubbed",
        ],
        "level_text": "bounded symbolic verification: for every command and every exchange step the status word (all 65536 values), "
                      "the fault kind and the answer opcode are solver variables; the oracle is docs/protocol.md plus the firmware's error names",
        "level_note": "trusted: CrossHair/z3, the simulated device, the named-cause table transcribed from firmware headers",
    },
    "C09": {
        "modules": ["harness.c09"],
        "explanation": "",
        "assumptions": COMMON_ASSUMPTIONS + [
            "device = sim/ledger.py (Ledger UI, TCP and SGX personalities); its mode / onboard / version / retries / echo / unlock bytes are solver variables",
            "socketserver inside comm.server is stubbed: 'starts serving' = TCPServer.run reaches serve_forever",
            "PIN object = FixedPin stand-in (the PIN file is C10's subject); time.sleep and hid.hidapi_exit are no-ops",
            "platform classes: HSM2Dongle (Ledger), HSM2DongleTCP, HSM2DongleSGX over the same transport stub",
        ],
        "level_text": "bounded symbolic verification: every device configuration byte (mode, onboard flag, version triples, retries, unlock "
                      "answer, post-unlock mode) is a solver variable; the oracle is the property statement written as a predicate on the "
                      "APDU log and on whether the manager starts serving",
        "level_note": "trusted: CrossHair/z3, the simulated UI/signer device (sim/ledger.py), formatting stubs",
    },
}
