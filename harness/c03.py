"""C03 No client request can take the manager down or go unanswered.

Real comm.server._RequestHandler.handle + real protocol + real ledger layer + conforming
simulated device.  Assertion for every request: exactly one line is written, it holds a JSON
object with an integer errorcode, and handle() raises neither RequestHandlerError nor
RequestHandlerShutdown (which _TCPServerRequestHandler turns into a server shutdown).
"""
import json as real_json
import os

from harness.common import obligation, part, known, REPLAY, NULL_LOGGER, reraise_control_flow, note
from harness.world import make_stack
from harness.catalog import (valid_request, pat, rlp_bytes, rlp_list, mk_header, BLOCK_A, BRO_1, BRO_2, PROOF)
import harness.c02 as c02
import harness.c04 as c04

import comm.server as server

THOROUGH = os.environ.get("VERIF_TIER") == "thorough"


class Wfile:
    def __init__(self):
        self.writes = []

    def write(self, b):
        self.writes.append(b)


class Rfile:
    def __init__(self, line):
        self.line = line

    def readline(self):
        return self.line


class FakeJson:
    """Environment stub for the `json` module inside comm.server (symbolic mode only).

    loads(): returns the request object the harness built, or raises one of the exceptions the
    real json.loads can raise for a str document: JSONDecodeError, RecursionError (deep
    nesting), ValueError (integer literal beyond the 4300-digit limit).  For a bytes document the
    real function first autodetects the encoding and may raise UnicodeDecodeError.
    dumps(): records the reply object (its structure is what the assertion is about)."""
    decoder = real_json.decoder
    JSONDecodeError = real_json.JSONDecodeError

    def __init__(self, outcome, value):
        self.outcome = outcome
        self.value = value
        self.dumped = []

    def loads(self, data):
        if type(data) is not str:
            raise UnicodeDecodeError("utf-32-be", b"\x00", 0, 1, "model: json.loads autodetects the encoding of bytes input")
        if self.outcome == "jsonerror":
            raise real_json.JSONDecodeError("Expecting value", "", 0)
        if self.outcome == "recursion":
            raise RecursionError("maximum recursion depth exceeded while decoding a JSON document")
        if self.outcome == "bigint":
            raise ValueError("Exceeds the limit (4300 digits) for integer string conversion")
        return self.value

    def dumps(self, obj, sort_keys=False):
        self.dumped.append(obj)
        return "<reply>"


def serve(proto, line=None, request=None, outcome="value"):
    """One pass through the real _RequestHandler.handle.  Returns (ok, detail)."""
    h = server._RequestHandler(proto, NULL_LOGGER)
    w = Wfile()
    if REPLAY:
        # real json end to end: the request object is rendered to a real line
        if line is None:
            line = real_json.dumps(request).encode() + b"\n"
        fake = None
    else:
        fake = FakeJson(outcome, request)
        server.json = fake
        if line is None:
            line = b"<line>\n"
    try:
        h.handle("client", Rfile(line), w)
    except BaseException as e:
        reraise_control_flow(e)
        import traceback
        note("handle raised", type(e).__name__, "".join(traceback.format_exception(e))[-600:])
        return (False, "raised " + type(e).__name__)
    finally:
        server.json = real_json
    # exactly one line: the handler writes the text and then the newline
    if len(w.writes) != 2 or w.writes[1] != b"\n":
        return (False, "writes: %d" % len(w.writes))
    if REPLAY:
        try:
            reply = real_json.loads(w.writes[0].decode())
        except Exception:
            return (False, "reply is not JSON")
    else:
        if len(fake.dumped) != 1:
            return (False, "dumps called %d times" % len(fake.dumped))
        reply = fake.dumped[0]
    if type(reply) is not dict or type(reply.get("errorcode")) is not int:
        return (False, "reply without integer errorcode")
    return (True, reply)


# ------------------------------------------------------------------ line level

LINES = [
    ("invalid utf-8", b"\xff\xfe{}\n", "value"),
    ("not json", b"{\n", "jsonerror"),
    ("deep nesting", b"[" * 100000 + b"\n", "recursion"),
    ("huge integer literal", b'{"command": "version", "version": ' + b"1" * 5000 + b"}\n", "bigint"),
    ("valid request", b'{"command": "version"}\n', "value"),
    ("NUL bytes before a document", b'\x00\x00\x00{"command":"version"}\n', "jsonerror"),
    ("empty line", b"\n", "jsonerror"),
    ("non-object", b"[1, 2]\n", "value"),
    ("utf-8 BOM", b'\xef\xbb\xbf{"command":"version"}\n', "jsonerror"),
]
LINE_VALUES = {4: {"command": "version"}, 7: [1, 2], 0: {}}


@obligation(tier="quick", parts=2, timeout=60, part_names=["v5", "v1"],
            bounds="request line: 9 catalogue lines (invalid UTF-8, not JSON, 100000-deep nesting, 5000-digit integer, NUL-prefixed, "
                   "BOM, empty, non-object, valid); in symbolic mode json.loads is the environment stub whose outcome is the line's class",
            examples=[(0, dict(i=i)) for i in range(len(LINES))] + [(1, dict(i=1)), (1, dict(i=4))])
def line(i: int) -> bool:
    """
    pre: 0 <= i < len(LINES)
    post: _
    """
    v1 = part() == 1
    name, raw, outcome = LINES[i]
    proto, dongle, world = make_stack(v1=v1)
    ok, detail = serve(proto, line=raw, request=LINE_VALUES.get(i), outcome=outcome)
    return ok


# ------------------------------------------------------------------ value level: hostile values

def nested_rlp(depth):
    b = b"\xc0"
    for _ in range(depth):
        b = rlp_list([b])
    return b


HOSTILE_BLOCKS = [
    ("not hex", "zz"),
    ("odd hex", "abc"),
    ("hex, not RLP", pat(40, 3).hex()),
    ("truncated RLP list", BLOCK_A[:100].hex()),
    ("RLP byte string of 19 bytes", rlp_bytes(pat(19, 1)).hex()),
    ("RLP byte string of 17 bytes", rlp_bytes(pat(17, 1)).hex()),
    ("list of 16 fields", mk_header(16, seed=7)[0].hex()),
    ("list of 21 fields", mk_header(21, seed=8)[0].hex()),
    ("merge-mining payload longer than 65535 bytes", mk_header(19, seed=9, extra_len=66000)[0].hex()),
    ("RLP nested deeper than the interpreter's recursion limit", nested_rlp(__import__("sys").getrecursionlimit() + 500).hex()),
    ("19 fields, coinbase shorter than a midstate", mk_header(19, seed=10, fields_override=lambda f: f[:-1] + [b"\x01\x02"])[0].hex()),
    ("empty string", ""),
    ("19 fields, coinbase whose byte counter is 2^64-1", mk_header(19, seed=12, fields_override=lambda f: f[:-1] + [b"\xff" * 8 + f[-1][8:]])[0].hex()),
    ("20 fields, coinbase whose byte counter is 2^61", mk_header(20, seed=13, fields_override=lambda f: f[:-1] + [b"\x20" + bytes(7) + f[-1][8:]])[0].hex()),
    ("19 fields, coinbase whose byte counter is 2^61-1", mk_header(19, seed=14, fields_override=lambda f: f[:-1] + [b"\x1f" + b"\xff" * 7 + f[-1][8:]])[0].hex()),
    ("19 fields whose last is a list", (lambda: rlp_list([rlp_bytes(pat(3, i)) for i in range(18)] + [rlp_list([])]).hex())()),
]


HB_PARTS = [(w, i) for i in range(len(HOSTILE_BLOCKS)) for w in range(3)
            if not (w == 1 and HOSTILE_BLOCKS[i][0].startswith("merge-mining payload longer"))]   # 66 kB brother: tracing cost only


@obligation(tier="quick", parts=len(HB_PARTS), timeout=90,
            part_names=lambda p: "%s <- %s" % (["advance.blocks", "advance.brothers", "updateAncestor.blocks"][HB_PARTS[p][0]],
                                                HOSTILE_BLOCKS[HB_PARTS[p][1]][0]),
            bounds="16 malformed block strings x {advanceBlockchain.blocks, advanceBlockchain.brothers, updateAncestorBlock.blocks}; "
                   "pre-state: pending-reconnect flag symbolic; position of the bad entry among good ones symbolic (first/last)",
            examples=[(0, dict(flag=False, last=False)), (7, dict(flag=True, last=True)), (5, dict(flag=False, last=True))])
def hostile_block(flag: bool, last: bool) -> bool:
    """
    post: _
    """
    where, bi = HB_PARTS[part()]
    bad = HOSTILE_BLOCKS[bi][1]
    if where == 0:
        req = valid_request("advanceBlockchain", 0)
        req["blocks"] = [BLOCK_A.hex(), bad] if last else [bad, BLOCK_A.hex()]
        req["brothers"] = [[], []]
    elif where == 1:
        req = valid_request("advanceBlockchain", 0)
        req["brothers"] = [[BRO_1.hex(), bad] if last else [bad, BRO_1.hex()]]
    else:
        req = valid_request("updateAncestorBlock", 0)
        req["blocks"] = [BLOCK_A.hex(), bad] if last else [bad, BLOCK_A.hex()]
    proto, dongle, world = make_stack(c04._device(req["command"]))
    proto._comm_issue = flag
    ok, detail = serve(proto, request=req)
    return ok


SMALL_BRO = mk_header(19, seed=11, fields_override=lambda f: f[:6] + [b"\x01"] + f[7:])[0]   # short logs bloom
OVERSIZE = ["256 brothers", "256 proof nodes", "proof node of 256 bytes", "witness script of 65536 bytes"]


@obligation(tier="quick", parts=len(OVERSIZE), timeout=120, part_names=OVERSIZE,
            bounds="oversized fields (lengths at the 1-byte / 2-byte length-field boundaries); pre-state flag symbolic",
            examples=[(i, dict(flag=False)) for i in (1, 2)])
def oversize(flag: bool) -> bool:
    """
    post: _
    """
    p = part()
    if p == 0:
        req = valid_request("advanceBlockchain", 0)
        req["brothers"] = [[SMALL_BRO.hex()] * 256]
    elif p == 1:
        req = valid_request("sign", 0)
        req["auth"]["receipt_merkle_proof"] = [PROOF[1].hex()] * 256
    elif p == 2:
        req = valid_request("sign", 0)
        req["auth"]["receipt_merkle_proof"] = [pat(256, 1).hex()]
    else:
        req = valid_request("sign", 2)
        req["message"]["witnessScript"] = pat(65536, 1).hex()
    proto, dongle, world = make_stack(c04._device(req["command"]), native_validators=True)
    proto._comm_issue = flag
    ok, detail = serve(proto, request=req)
    return ok


@obligation(tier="quick", parts=4, timeout=120,
            part_names=["sign legacy: message.input", "sign segwit: message.input", "sign segwit: outpointValue", "version field"],
            bounds="integer fields over ALL integers (negative, 2^32, 2^64, ...): message.input, outpointValue, version",
            examples=[(0, dict(v=0, flag=False)), (0, dict(v=0xffffffff, flag=True)), (2, dict(v=2 ** 64 - 1, flag=False)),
                      (3, dict(v=5, flag=False))])
def any_integer(v: int, flag: bool) -> bool:
    """
    post: _
    """
    p = part()
    if p == 0:
        req = valid_request("sign", 0)
        req["message"]["input"] = v
    elif p == 1:
        req = valid_request("sign", 2)
        req["message"]["input"] = v
    elif p == 2:
        req = valid_request("sign", 2)
        req["message"]["outpointValue"] = v
    else:
        req = valid_request("blockchainState")
        req["version"] = v
    proto, dongle, world = make_stack(c04._device(req["command"]), bytes_model=True)
    proto._comm_issue = flag
    ok, detail = serve(proto, request=req)
    return ok


HOSTILE_COMMANDS = [[], {}, ["sign"], {"a": 1}, None, 7, 1.5, True, "", "nope",
                    # names that exist in protocol v5 only (in v1 mode they are unknown commands)
                    "advanceBlockchain", "resetAdvanceBlockchain", "blockchainState", "updateAncestorBlock",
                    "blockchainParameters", "signerHeartbeat", "uiHeartbeat", "Version", "getpubkey"]


@obligation(tier="quick", parts=2, timeout=60, part_names=["v5", "v1"],
            bounds="command of every JSON kind incl. the unhashable ones (list, object)",
            examples=[(0, dict(i=9)), (1, dict(i=4))])
def command_kind(i: int) -> bool:
    """
    pre: 0 <= i < len(HOSTILE_COMMANDS)
    post: _
    """
    v1 = part() == 1
    req = {"command": HOSTILE_COMMANDS[i], "version": 1 if v1 else 5}
    proto, dongle, world = make_stack(v1=v1)
    ok, detail = serve(proto, request=req)
    return ok


@obligation(tier="quick", parts=len(c02.FIELDS), timeout=150, thorough_timeout=1800, part_names=c02.field_name,
            bounds="the typed one-field deviations of C02 (29 command/field pairs x 10 kinds, symbolic ints and ASCII strings <= 2 "
                   "(T: 4) chars) pushed through the server's request handler; pre-state flag symbolic",
            examples=[(0, dict(kind=0, ival=0, sval="", flag=False)), (9, dict(kind=1, ival=3, sval="", flag=True))])
def typed_deviation(kind: int, ival: int, sval: str, flag: bool) -> bool:
    """
    pre: 0 <= kind < c02.NKINDS
    pre: len(sval) <= c02.SMAX and c02._ascii(sval)
    post: _
    """
    cmd, var, path = c02.FIELDS[part()]
    present, value = c02.deviate(kind, ival, c02.string_for(path, sval))
    if path[-1] in ("command", "blocks", "brothers") and kind in (3, 8):
        return True
    if kind in (3, 8) and not THOROUGH:
        return True      # symbolic strings: thorough tier (C02 decides them in its quick tier with a stronger oracle)
    req = valid_request(cmd, var)
    c02.set_path(req, path, present, value)
    proto, dongle, world = make_stack(c04._device(cmd), traced=c02.TRACED_FOR.get(path[-1], ()), bytes_model=True)
    proto._comm_issue = flag
    ok, detail = serve(proto, request=req)
    return ok
