"""C05 Advance / ancestor update hand the device the client's blocks intact.

flow        real HSM2ProtocolLedger -> advance_blockchain / update_ancestor -> _do_block_operation /
            _send_block_header / _send_data_in_chunks against the simulated device, which reassembles every
            header and brother it is sent.  Symbolic: number of blocks, brother lists and their order, which
            blocks the device asks brothers for, where it stops (partial / total success), chunk size class.
rlp_payload real rlp_first_element_list_payload_length on a symbolic list prefix vs the RLP definition.
mm_fields   real remove_mm_fields_if_present / get_block_hash / rlp_mm_payload_size over generated headers
            with 17..20 fields and field sizes straddling the RLP short/long boundaries.
(chunking itself: harness.c01.chunk_policy partitions 'partial ok', harness.c01.chunk_long)
"""
from Crypto.Hash import keccak as _keccak

from harness.common import obligation, part
from harness.world import make_stack, handle
from harness.catalog import (mk_header, BLOCK_A, BLOCK_A_INFO, BLOCK_B, BLOCK_B_INFO, BRO_1, BRO_1_INFO, BRO_2, BRO_2_INFO,
                             BLOCK_17, BLOCK_17_INFO, BLOCK_18, BLOCK_18_INFO, rlp_list, rlp_bytes, pat)
from sim.base import blist, mkbytes, HB
from sim.ledger import SimDevice

import ledger.block_utils as bu


def k256(b):
    return _keccak.new(digest_bits=256).update(bytes(b)).digest()


def block_hash(info):
    return k256(info["hash_preimage"])


BLOCKS = [(BLOCK_A, BLOCK_A_INFO), (BLOCK_B, BLOCK_B_INFO)]
BLOCK_C, BLOCK_C_INFO = mk_header(19, seed=21, cb_len=64 + 1, extra_len=0, mmproof_len=32, diff_len=1)
BROS = [(BRO_1, BRO_1_INFO), (BRO_2, BRO_2_INFO), (BLOCK_C, BLOCK_C_INFO)]
CHUNKS = [255, 100, 80]
STOPS = [None, (0, "partial"), (0, "success"), (1, "partial"), (1, "success")]

# brother lists for (block 0, block 1): indices into BROS, in the order the client gives them
BROLISTS = [
    ([], []), ([0], []), ([0, 1], []), ([1, 0], []), ([2, 1, 0], [1]), ([], [0, 1]), ([1], [2, 0]), ([0, 1, 2], [1, 0]),
]


@obligation(tier="quick", parts=len(BROLISTS) * 2, timeout=360,
            part_names=lambda i: "%d block(s), brothers %s" % (1 + i % 2, BROLISTS[i // 2],),
            bounds="advanceBlockchain: 1 or 2 blocks and the client's brother lists (8 shapes, incl. unsorted ones) are partitions; symbolic: "
                   "whether the device asks for the brothers of block 0 / block 1, where it stops (never | partial or total success after "
                   "block 0 | after block 1), chunk size class {255, 100, 80}",
            examples=[(0, dict(ask0=True, ask1=True, stop=0, ci=0)), (9, dict(ask0=False, ask1=True, stop=0, ci=1)),
                      (7, dict(ask0=True, ask1=False, stop=3, ci=2)), (4, dict(ask0=True, ask1=True, stop=1, ci=0)),
                      (15, dict(ask0=True, ask1=True, stop=4, ci=1))])
def advance_flow(ask0: bool, ask1: bool, stop: int, ci: int) -> bool:
    """
    pre: 0 <= stop <= 4
    pre: 0 <= ci <= 2
    post: _
    """
    p = part()
    nblocks = 1 + p % 2
    bl0, bl1 = BROLISTS[p // 2]
    bro_idx = [bl0, bl1][:nblocks]
    req = {"command": "advanceBlockchain", "version": 5,
           "blocks": [BLOCKS[i][0].hex() for i in range(nblocks)],
           "brothers": [[BROS[j][0].hex() for j in lst] for lst in bro_idx]}
    d = SimDevice()
    d.chunk = CHUNKS[ci]
    d.ask_brothers = [ask0, ask1]
    d.stop_after = STOPS[stop]
    proto, dongle, world = make_stack(d)
    out = handle(proto, req)
    if out[0] != "reply" or world.violations:
        return False
    b = d.block_op
    # announced count: BE32 of the number of blocks
    if b is None or b["count"] != nblocks:
        return False
    # which blocks does the device get before it stops?
    if d.stop_after is not None and d.stop_after[0] < nblocks:
        upto = d.stop_after[0] + 1
        result = d.stop_after[1]
    else:
        upto = nblocks
        result = "success"
    if len(b["blocks"]) != upto:
        return False
    for i in range(upto):
        raw, info = BLOCKS[i]
        got = b["blocks"][i]
        # byte-exact header, preceded by ITS metadata
        if got["data"] != list(raw) or got["mm_payload_len"] != info["mm_payload_len"] \
                or got["cb_hash"] != list(info["cb_hash"]):
            return False
        asked = [ask0, ask1][i]
        if asked:
            want = sorted([BROS[j] for j in bro_idx[i]], key=lambda bi: block_hash(bi[1]))
            if got["brother_count"] != len(want) or len(got["brothers"]) != len(want):
                return False
            for g, (wraw, winfo) in zip(got["brothers"], want):
                if g["data"] != list(wraw) or g["mm_payload_len"] != winfo["mm_payload_len"] \
                        or g["cb_hash"] != list(winfo["cb_hash"]):
                    return False
        elif got["brother_count"] is not None or got["brothers"]:
            return False
    # reply 0 / 1 exactly when the device reported total / partial success
    return out[1] == {"errorcode": 0 if result == "success" else 1}


@obligation(tier="quick", parts=2, timeout=300, part_names=["advanceBlockchain", "updateAncestorBlock"],
            bounds="one block (advance: with one brother), 80-byte chunks; the ANSWER to exchange k (symbolic, 0..29) is lost after the device "
                   "has taken the message (time-out): the client is told so (device-error code) and the device never holds anything but "
                   "a prefix of the client's headers - nothing is delivered twice; no fault (k beyond the flow): success",
            examples=[(0, dict(k=3)), (1, dict(k=2)), (0, dict(k=29)), (0, dict(k=7))])
def lost_answer(k: int) -> bool:
    """
    pre: 0 <= k <= 29
    post: _
    """
    from sim.base import raise_fault, FAULT_TIMEOUT
    adv = part() == 0
    if adv:
        req = {"command": "advanceBlockchain", "version": 5, "blocks": [BLOCK_A.hex()], "brothers": [[BRO_1.hex()]]}
    else:
        req = {"command": "updateAncestorBlock", "version": 5, "blocks": [BLOCK_A.hex()]}
    d = SimDevice()
    d.chunk = 80
    proto, dongle, world = make_stack(d)
    fired = {"n": 0}

    def after(i, apdu):
        if i == k:
            fired["n"] += 1
            raise_fault(FAULT_TIMEOUT)
    world.after_hook = after
    out = handle(proto, req)
    if out[0] != "reply":
        return False
    b = d.block_op
    held = []
    if b is not None:
        for blk in b["blocks"]:
            # (an ancestor update delivers the header without its merge-mining proof and coinbase: the block-hash preimage)
            held.append((blk["data"], list(BLOCK_A) if adv else list(BLOCK_A_INFO["hash_preimage"])))
            for bro in blk["brothers"]:
                held.append((bro["data"], list(BRO_1)))
    for got, want in held:
        if got != want[:len(got)]:
            return False                 # something else than a prefix of the client's header (e.g. a slice delivered twice)
    if fired["n"] == 0:
        return out[1].get("errorcode") == 0 and not world.violations
    return out[1].get("errorcode") == -905


UPD_LISTS = [[0], [0, 1], [2, 0], [1, 3, 2]]
UPD_BLOCKS = [(BLOCK_A, BLOCK_A_INFO), (BLOCK_B, BLOCK_B_INFO), (BLOCK_17, BLOCK_17_INFO), (BLOCK_18, BLOCK_18_INFO)]


@obligation(tier="quick", parts=len(UPD_LISTS), timeout=200, part_names=lambda i: "blocks %s" % (UPD_LISTS[i],),
            bounds="updateAncestorBlock: 4 block lists over headers with 19, 20, 17 and 18 fields (partition); symbolic: total success "
                   "after block j (0..2) or at the end, chunk size class",
            examples=[(0, dict(stop=3, ci=0)), (3, dict(stop=1, ci=2)), (2, dict(stop=3, ci=1))])
def ancestor_flow(stop: int, ci: int) -> bool:
    """
    pre: 0 <= stop <= 3
    pre: 0 <= ci <= 2
    post: _
    """
    idx = UPD_LISTS[part()]
    req = {"command": "updateAncestorBlock", "version": 5, "blocks": [UPD_BLOCKS[i][0].hex() for i in idx]}
    d = SimDevice()
    d.chunk = CHUNKS[ci]
    d.stop_after = (stop, "success") if stop < len(idx) else None
    proto, dongle, world = make_stack(d)
    out = handle(proto, req)
    if out[0] != "reply" or world.violations:
        return False
    b = d.block_op
    upto = min(stop + 1, len(idx))
    if b is None or b["count"] != len(idx) or len(b["blocks"]) != upto:
        return False
    for k in range(upto):
        raw, info = UPD_BLOCKS[idx[k]]
        got = b["blocks"][k]
        # merge-mining fields removed (BTC header kept): that is exactly the block-hash preimage, so the hash is unchanged
        want = info["hash_preimage"]
        if got["data"] != list(want) or k256(bytes(got["data"])) != block_hash(info):
            return False
        if got["mm_payload_len"] != info["mm_payload_len"] or got["cb_hash"] != []:
            return False
    return out[1] == {"errorcode": 0}


# (the RLP length helper rlp_first_element_list_payload_length is decided by engine/smt_rlp.py: direct z3 query)


# ------------------------------------------------------------------ merge-mining fields

def gen_headers():
    out = []
    seed = 30
    for nf in (17, 18, 19, 20):
        for extra in (0, 1, 32, 55, 56, 300):       # extraData sizes straddling the 55/56 (short/long string) boundary
            for cb in (65, 119, 300):
                seed += 1
                out.append(mk_header(nf, seed=seed, cb_len=cb, cb_blocks=1, extra_len=extra))
    # payload sizes around the 55/56 and 255/256 list boundaries cannot occur with a 256-byte bloom; shrink it
    for bloom in (1, 20):
        seed += 1
        out.append(mk_header(19, seed=seed, fields_override=lambda f, bloom=bloom: f[:6] + [pat(bloom, 3)] + f[7:]))
    return out


HEADERS = gen_headers()


@obligation(tier="quick", parts=4, timeout=200, part_names=["17 fields", "18 fields", "19 fields", "20 fields (+2 short-bloom)"],
            bounds="generated headers: 17..20 fields x extraData size {0,1,32,55,56,300} x coinbase length {65,119,300} (symbolic index "
                   "into the 18 headers of the partition)",
            examples=[(0, dict(i=0)), (1, dict(i=5)), (2, dict(i=17)), (3, dict(i=19))])
def mm_fields(i: int) -> bool:
    """
    pre: 0 <= i < 18 + (2 if part() == 3 else 0)
    post: _
    """
    p = part()
    group = HEADERS[p * 18:(p + 1) * 18] + (HEADERS[72:] if p == 3 else [])
    raw, info = group[i]
    hx = raw.hex()
    # the headers are concrete catalogue entries (the solver only selects one): run the helpers natively
    from sim.base import c_boundary
    remove_mm = c_boundary(bu.remove_mm_fields_if_present)
    get_hash = c_boundary(bu.get_block_hash)
    mm_size = c_boundary(bu.rlp_mm_payload_size)
    stripped = remove_mm(hx, hex=False)
    if bytes(stripped) != info["hash_preimage"]:
        return False
    if get_hash(hx) != block_hash(info).hex():
        return False
    # removing is idempotent and keeps the hash
    if get_hash(bytes(stripped).hex()) != block_hash(info).hex():
        return False
    if mm_size(hx) != info["mm_payload_len"]:
        return False
    if info["nfields"] in (19, 20):
        from comm.pow import coinbase_tx_get_hash
        if bytes.fromhex(c_boundary(coinbase_tx_get_hash)(c_boundary(bu.get_coinbase_txn)(hx))) != info["cb_hash"]:
            return False
    return True


# ------------------------------------------------------------------ two requests on one manager

BLOCK_A2, BLOCK_A2_INFO = mk_header(19, seed=1, cb_len=151)        # same hashed fields as BLOCK_A, another coinbase
BRO_1B, BRO_1B_INFO = mk_header(19, seed=3, cb_len=199, mmproof_len=96)
assert BLOCK_A2_INFO["hash_preimage"] == BLOCK_A_INFO["hash_preimage"] and BLOCK_A2_INFO["cb_hash"] != BLOCK_A_INFO["cb_hash"]


@obligation(tier="quick", parts=2, timeout=200, part_names=["as block", "as brother"],
            bounds="two advanceBlockchain requests on ONE manager / dongle object: a header, then a header with the same block hash but a "
                   "different coinbase transaction (and the other way round - symbolic order; chunk class symbolic): each is preceded by "
                   "ITS metadata",
            examples=[(0, dict(first=True, ci=0)), (1, dict(first=False, ci=1))])
def same_hash_other_coinbase(first: bool, ci: int) -> bool:
    """
    pre: 0 <= ci <= 2
    post: _
    """
    as_brother = part() == 1
    pair = [(BRO_1, BRO_1_INFO), (BRO_1B, BRO_1B_INFO)] if as_brother else [(BLOCK_A, BLOCK_A_INFO), (BLOCK_A2, BLOCK_A2_INFO)]
    if not first:
        pair = pair[::-1]
    d = SimDevice()
    d.chunk = CHUNKS[ci]
    proto, dongle, world = make_stack(d)
    for (raw, info) in pair:
        if as_brother:
            req = {"command": "advanceBlockchain", "version": 5, "blocks": [BLOCK_A.hex()], "brothers": [[raw.hex()]]}
        else:
            req = {"command": "advanceBlockchain", "version": 5, "blocks": [raw.hex()], "brothers": [[]]}
        out = handle(proto, req)
        if out != ("reply", {"errorcode": 0}) or world.violations:
            return False
        blk = d.block_op["blocks"][0]
        got = blk["brothers"][0] if as_brother else blk
        if got["data"] != list(raw) or got["cb_hash"] != list(info["cb_hash"]) or got["mm_payload_len"] != info["mm_payload_len"]:
            return False
    return True
