"""C18 Admin commands touch seed and PIN only under their preconditions.

Real admin.onboard.do_onboard, admin.unlock.do_unlock, admin.changepin.do_changepin, admin.pubkeys.do_get_pubkeys,
admin.misc.ask_for_pin, ledger.pin.BasePin.is_valid and the real HSM2Dongle / HSM2DongleSGX onboarding and PIN
commands over the simulated device.  stdin, getpass, os.urandom, time.sleep and output files are stubs whose
contents are chosen by the harness (operator answers and PINs: symbolic selections).
Oracle: a predicate on the APDU log of the device.
"""
import json as real_json

from harness.common import obligation, part, reraise_control_flow, note
from harness.catalog import KEY_PATHS, path_bytes
from harness.c10 import policy_ok
from sim.base import World, passthrough, blist
from sim.ledger import SimDevice

import admin.misc as misc
import admin.onboard as onboard
import admin.unlock as unlock
import admin.changepin as changepin
import admin.pubkeys as pubkeys
import ledger.hsm2dongle as h
from sgx.hsm2dongle import HSM2DongleSGX
from comm.platform import Platform


import os
THOROUGH = os.environ.get("VERIF_TIER") == "thorough"


class StopHere(Exception):
    """The flow reached the part that is not this property's subject (attestation setup)."""


class Options:
    def __init__(self, **kw):
        self.verbose = False
        self.pin = None
        self.new_pin = None
        self.any_pin = False
        self.no_unlock = False
        self.no_exec = False
        self.output_file_path = "/out/file"
        self.__dict__.update(kw)


class _Stdout:
    def write(self, s):
        pass

    def flush(self):
        pass


class _Stdin:
    def __init__(self, lines):
        self.lines = list(lines)
        self.reads = 0

    def readline(self):
        self.reads += 1
        if self.reads > 12:
            raise StopHere("the operator never answers (the command would wait / spin forever)")
        if self.lines and self.lines[0] is not None:
            return self.lines.pop(0) + "\n"
        return ""            # EOF (lines exhausted, or an explicit EOF entry which stays at the head)


class _Sys:
    def __init__(self, lines):
        self.stdin = _Stdin(lines)
        self.stdout = _Stdout()


class _Os:
    def __init__(self, seed):
        import os
        self.path = os.path
        self.seed = seed
        self.requested = []

    def urandom(self, n):
        self.requested.append(n)
        return bytes(self.seed[:n])


class _Time:
    def sleep(self, s):
        pass


class Env:
    """Installs the environment stubs into the admin modules and restores them afterwards."""
    def __init__(self, platform, device, answers=(), typed_pins=(), seed=None):
        self.platform = platform
        self.device = device
        self.sys = _Sys(answers)
        self.os = _Os(seed or list(range(100, 132)))
        self.typed = list(typed_pins)
        self.files = {}
        self.saved = {}

    def getpass(self, prompt=""):
        if self.typed:
            return self.typed.pop(0)
        raise StopHere("operator has no more PINs to type")

    def __enter__(self):
        Platform.set(Platform.LEDGER if self.platform == "ledger" else Platform.SGX,
                     {} if self.platform == "ledger" else {"sgx_host": "h", "sgx_port": 1})
        self.world = World(self.device)
        self.world.install(bytes_model=False)
        for mod, name, val in [
            (misc, "sys", self.sys), (onboard, "sys", self.sys), (misc, "getpass", self.getpass), (misc, "time", _Time()),
            (onboard, "os", self.os), (misc, "HSM2Dongle", passthrough(h.HSM2Dongle)),
            (misc, "HSM2DongleSGX", passthrough(HSM2DongleSGX)), (misc, "get_admin_hsm", self._no_admin),
            (onboard, "get_admin_hsm", self._no_admin),
        ]:
            self.saved[(mod, name)] = getattr(mod, name)
            setattr(mod, name, val)
        return self

    def _no_admin(self, debug):
        raise StopHere("attestation setup (C15)")

    def __exit__(self, *a):
        for (mod, name), val in self.saved.items():
            setattr(mod, name, val)
        return False


def run(fn, *a, **k):
    """Returns 'ok' | 'admin-error' | 'stopped' | 'raised:<type>'."""
    try:
        fn(*a, **k)
        return "ok"
    except misc.AdminError:
        return "admin-error"
    except StopHere:
        return "stopped"
    except Exception as e:
        reraise_control_flow(e)
        import traceback
        note("raised", type(e).__name__, "".join(traceback.format_exception(e))[-500:])
        return "raised:" + type(e).__name__


EOF = None     # stdin closed: every further readline() returns ""
ANSWERS = ["yes", "YES", "Yes", "y", "no", "n", "N", "", "ye", "yes please", "s", "NO", EOF]
PINS = ["abcd1234", "abc123", "12345678", "abcd123!", "abcd12345", "pin123º", "", "1234567a", "abcdefgh", "abcd1234 ", "abcd123\r",
        " bcd1234"]


def alnum_only(pin_bytes):
    return all((48 <= c <= 57) or (65 <= c <= 90) or (97 <= c <= 122) for c in pin_bytes)


def onboarding_apdus(world, platform):
    cmds = [blist(a)[1] for a in world.apdus()]
    if platform == "ledger":
        return [c for c in cmds if c in (0x44, 0x41, 0x07)]
    return [c for c in cmds if c == 0xA0]


MODES = [2, 3, 4, None]    # bootloader, signer, ui heartbeat, no app (GET_MODE fails -> unknown)


class AdminDevice(SimDevice):
    onboard_pin = None
    sgx_personality = False
    wipes_on_last_retry = False

    def __init__(self, mode):
        super().__init__()
        self.mode = mode
        self.unlock_while_not_onboarded = []
        self.touched_while_onboarded = []     # seed bytes / wipe / SGX onboard commands that reached an onboarded device
        # (PIN bytes also precede the unlock that follows a Ledger onboarding: they are judged by the wipe they lead to)

    def handle(self, apdu):
        a = blist(apdu)
        if a[1] in ((0x44, 0x07) if not self.sgx_personality else (0xA0,)) and self.onboarded == 1:
            self.touched_while_onboarded.append(a[1])
        if a[1] in (0xFE, 0xA3):
            # UNLOCK: a PIN presented to a device that is not onboarded (e.g. one that just wiped itself) is recorded
            if self.onboarded != 1:
                self.unlock_while_not_onboarded.append(a[1])
            r = SimDevice.handle(self, apdu)
            if self.wipes_on_last_retry and self.unlock_ok == 0:
                self.retries = max(0, self.retries - 1)
                if self.retries == 0:
                    self.onboarded = 0          # the last retry is gone: the device wipes itself
            return r
        if a[1] == 0xA0:
            r = SimDevice.handle(self, apdu)
            self.onboarded = 1
            return r
        if a[1] == 0x43 and self.mode is None:
            from sim.base import raise_fault, FAULT_SW
            raise_fault(FAULT_SW, 0x6E00)
        if a[1] == 0x07:
            # WIPE: the device takes the seed and the (length-prefixed) PIN it was sent
            n = self.pin_buffer.get(0)
            self.onboard_pin = bytes([self.pin_buffer.get(1 + i) for i in range(n)]) if n is not None else None
            self.pin_buffer = {}
            r = SimDevice.handle(self, apdu)
            self.onboarded = 1
            return r
        return SimDevice.handle(self, apdu)


FOCUS = ["device state", "operator answers", "pin"]


@obligation(tier="quick", parts=24, timeout=240,
            part_names=lambda i: "%s/%s/symbolic: %s" % (["ledger", "sgx"][(i % 8) // 4],
                                                         ["pin given", "pin typed", "pin given + any-pin", "pin typed + any-pin"][i % 4],
                                                         FOCUS[i // 8]),
            bounds="one input group symbolic per partition (the others at their 'preconditions hold' values): device mode {bootloader, "
                   "signer, ui-heartbeat, none} x onboard byte 0..255 x echo ok/bad | operator answers: 2 symbolic selections (then 'no') "
                   "from 12 strings (yes / YES / y / no / n / empty / 'ye' / 's' / ...); PIN: symbolic selection from 9 "
                   "strings (valid, too short, digits only, non-alphanumeric, 9 chars, Latin-1 letter, empty); platform / PIN source / "
                   "any-pin are partitions",
            examples=[(0, dict(m=0, onb=0, echo=True, a0=0, a1=0, a2=0, p0=0, p1=0)), (0, dict(m=0, onb=0, echo=True, a0=3, a1=7, a2=4, p0=0, p1=0)),
                      (1, dict(m=0, onb=0, echo=True, a0=1, a1=0, a2=0, p0=1, p1=7)), (4, dict(m=0, onb=0, echo=True, a0=2, a1=0, a2=0, p0=0, p1=0)),
                      (0, dict(m=1, onb=0, echo=True, a0=0, a1=0, a2=0, p0=0, p1=0)), (6, dict(m=0, onb=0, echo=True, a0=0, a1=0, a2=0, p0=2, p1=0)),
                      (0, dict(m=0, onb=1, echo=True, a0=0, a1=0, a2=0, p0=0, p1=0)), (3, dict(m=0, onb=0, echo=True, a0=0, a1=0, a2=0, p0=3, p1=1))])
def onboarding(m: int, onb: int, echo: bool, a0: int, a1: int, a2: int, p0: int, p1: int) -> bool:
    """
    pre: 0 <= m <= 3 and 0 <= onb <= 255
    pre: 0 <= a0 < len(ANSWERS) and 0 <= a1 < len(ANSWERS) and 0 <= a2 < len(ANSWERS)
    pre: 0 <= p0 < len(PINS) and 0 <= p1 < len(PINS)
    post: _
    """
    p = part() % 8
    focus = part() // 8
    # one group of inputs is symbolic per partition, the others take their "all preconditions hold" values
    if focus != 0:
        m, onb, echo = 0, 0, True
    if focus != 1:
        a0, a1, a2 = 0, 4, 4
    else:
        a2 = 4
    if focus != 2:
        p0, p1 = 0, 0
    platform = ["ledger", "sgx"][p // 4]
    given = p % 2 == 0
    any_pin = (p % 4) >= 2
    d = AdminDevice(MODES[m])
    d.onboarded = onb
    d.echo_ok = echo
    answers = [ANSWERS[a0], ANSWERS[a1], ANSWERS[a2]]
    typed = [] if given else [PINS[p0], PINS[p1], "abcd1234"]
    opts = Options(pin=PINS[p0] if given else None, any_pin=any_pin)
    seed = list(range(100, 132))
    with Env(platform, d, answers, typed, seed) as env:
        res = run(onboard.do_onboard, opts)
        sent = onboarding_apdus(env.world, platform)
        # --- what did the operator say? the first answer that is a yes or a no decides
        said_yes = False
        for a in answers:
            if a is EOF:
                break                   # closed stdin is not a yes
            if a.lower() in ("n", "no"):
                break
            if a.lower() == "yes":
                said_yes = True
                break
        # --- which PIN reaches the device?
        if given:
            pin = PINS[p0].encode()
            pin_ok = policy_ok(pin)       # a PIN given on the command line is always checked against the full policy
            pin_reaches = pin_ok
        else:
            pin = None
            for cand in typed:
                c = cand.encode()
                if (any_pin and alnum_only(c)) or ((not any_pin) and policy_ok(c)):
                    pin = c
                    break
            pin_reaches = pin is not None
        pre = MODES[m] == 2 and echo and onb != 1 and said_yes and pin_reaches
        if given and not pin_ok:
            pre = False
        if res.startswith("raised"):
            return False
        if not pre:
            return sent == []                      # nothing of seed / PIN / wipe may go out
        # preconditions hold: the operation is carried out, with a fresh 32-byte seed and that very PIN
        if env.os.requested != [32]:
            return False
        if platform == "ledger":
            if [d.seed.get(i) for i in range(32)] != seed or not d.wiped:
                return False
            got_pin = d.onboard_pin
        else:
            if d.sgx_onboard is None or d.sgx_onboard[0] != seed:
                return False
            got_pin = bytes(d.sgx_onboard[1])
        if got_pin != pin:
            return False
        # policy-compliant unless any-PIN was explicitly allowed (then: alphanumerics only)
        return policy_ok(got_pin) or (any_pin and not given and alnum_only(got_pin))


@obligation(tier="quick", parts=2, timeout=420, part_names=["ledger", "sgx"],
            bounds="all preconditions hold and the operator says yes; ONE exchange of the flow (symbolic index 0..59) loses its answer: "
                   "time-out | write error | read error, either before the device saw the command or after it carried it out "
                   "(symbolic); oracle: no seed byte and no wipe / onboard command reaches a device that is already onboarded",
            examples=[(0, dict(k=0, kind=2, after=False)), (0, dict(k=45, kind=2, after=True)), (1, dict(k=3, kind=2, after=True)),
                      (0, dict(k=59, kind=4, after=True)), (0, dict(k=44, kind=2, after=True)), (0, dict(k=44, kind=4, after=True)),
                      (0, dict(k=43, kind=2, after=True))])
def onboarding_lost_answer(k: int, kind: int, after: bool) -> bool:
    """
    pre: 0 <= k <= 59 and 2 <= kind <= 4
    post: _
    """
    from sim.base import raise_fault
    platform = ["ledger", "sgx"][part()]
    d = AdminDevice(2)
    d.sgx_personality = platform == "sgx"
    d.onboarded = 0
    opts = Options(pin="abcd1234")
    with Env(platform, d, ["yes", "no", "no"], []) as env:
        def hook(i, apdu):
            if i == k:
                raise_fault(kind)
        if after:
            env.world.after_hook = hook
        else:
            env.world.fault_hook = hook
        run(onboard.do_onboard, opts)        # (how the command ends - error message or exception - is not this property's subject)
        return d.touched_while_onboarded == []


@obligation(tier="quick", parts=2, timeout=200, part_names=["ledger", "sgx"],
            bounds="unlock of an onboarded device in bootloader mode whose retry counter (0..3) and reaction to the PIN (accept / "
                   "refuse) are symbolic; a device that refuses its last retry wipes itself; the PIN is given on the command line or "
                   "typed (symbolic), and the operator has further PINs ready to type: no PIN is presented to the device once it is no "
                   "longer onboarded",
            examples=[(0, dict(retries=1, ul=0, typed=True)), (1, dict(retries=1, ul=0, typed=True)), (0, dict(retries=3, ul=1, typed=False)),
                      (1, dict(retries=2, ul=0, typed=True))])
def unlock_last_retry(retries: int, ul: int, typed: bool) -> bool:
    """
    pre: 0 <= retries <= 3 and 0 <= ul <= 1
    post: _
    """
    platform = ["ledger", "sgx"][part()]
    d = AdminDevice(2)
    d.onboarded = 1
    d.echo_ok = True
    d.unlock_ok = ul
    d.retries = retries
    d.wipes_on_last_retry = True
    opts = Options(pin=None if typed else "abcd1234")
    with Env(platform, d, typed_pins=["abcd1234", "zz11yy22", "qq22ww33"] if typed else []):
        run(unlock.do_unlock, opts)
    return d.unlock_while_not_onboarded == []


# (command, focus): what is symbolic / where the PINs come from
UC_FOCUS = ["device state", "pins and flags, PINs on the command line", "pins and flags, new PIN typed", "pins and flags, current PIN typed",
            "pins and flags, both PINs typed"]
UC_PARTS = [(p, f) for f in (0, 1) for p in range(4)] + [(0, 3), (1, 3)] + [(p, f) for f in (2, 3, 4) for p in (2, 3)]


@obligation(tier="quick", parts=len(UC_PARTS), timeout=320,
            part_names=lambda i: ["ledger/unlock", "sgx/unlock", "ledger/changepin", "sgx/changepin"][UC_PARTS[i][0]] +
            "/symbolic: " + UC_FOCUS[UC_PARTS[i][1]],
            bounds="device mode x onboard byte 0..255 x echo x unlock answer symbolic; PIN / new PIN symbolic selections from 9 strings; "
                   "any-pin and no-unlock flags symbolic; each PIN given on the command line or typed at the prompt (partitions; a rejected typed "
                   "PIN is followed by a compliant second attempt)",
            examples=[(0, dict(m=0, onb=1, echo=True, ul=1, p0=0, p1=0, anyp=False, nounlock=False)),
                      (0, dict(m=1, onb=1, echo=True, ul=1, p0=0, p1=0, anyp=False, nounlock=False)),
                      (2, dict(m=0, onb=1, echo=True, ul=1, p0=0, p1=2, anyp=False, nounlock=False)),
                      (7, dict(m=0, onb=1, echo=True, ul=1, p0=0, p1=7, anyp=True, nounlock=True)), (6, dict(m=0, onb=1, echo=True, ul=1, p0=0, p1=2, anyp=False, nounlock=False)),
                      (2, dict(m=0, onb=0, echo=True, ul=1, p0=0, p1=0, anyp=False, nounlock=False)),
                      (UC_PARTS.index((2, 2)), dict(m=0, onb=1, echo=True, ul=1, p0=0, p1=2, anyp=False, nounlock=False)),
                      (UC_PARTS.index((3, 4)), dict(m=0, onb=1, echo=True, ul=1, p0=2, p1=1, anyp=False, nounlock=False)),
                      (UC_PARTS.index((0, 3)), dict(m=0, onb=1, echo=True, ul=1, p0=3, p1=0, anyp=False, nounlock=False))])
def unlock_and_changepin(m: int, onb: int, echo: bool, ul: int, p0: int, p1: int, anyp: bool, nounlock: bool) -> bool:
    """
    pre: 0 <= m <= 3 and 0 <= onb <= 255 and 0 <= ul <= 255
    pre: 0 <= p0 < len(PINS) and 0 <= p1 < len(PINS)
    post: _
    """
    p, focus = UC_PARTS[part()]
    typed_cur, typed_new = focus in (3, 4), focus in (2, 4)
    if focus == 0:
        p0, p1, anyp = 0, 7, False          # device state symbolic, PINs valid
    else:
        m, onb, echo, ul = 0, 1, True, 1    # PINs and flags symbolic, device in order
    platform = ["ledger", "sgx"][p % 2]
    change = p >= 2
    if not change:
        typed_new = False
    d = AdminDevice(MODES[m])
    d.onboarded = onb
    d.echo_ok = echo
    d.unlock_ok = ul
    # PINs are given on the command line or typed at the prompt (the prompt repeats until it gets an acceptable one; the operator's
    # second attempt is a compliant PIN).  The unlock prompt comes first - it exists only if unlocking was not switched off.
    unlock_prompted = typed_cur and not (change and nounlock)
    opts = Options(pin=None if typed_cur else PINS[p0], new_pin=(None if typed_new else PINS[p1]) if change else None,
                   any_pin=anyp, no_unlock=nounlock)
    # what the operator types: a first attempt and, only if the prompt rejects it, a second one (unlock prompt: any alphanumerics
    # are accepted; new-PIN prompt: the policy, or any alphanumerics with any-pin)
    typed = []
    cur_pin = PINS[p0].encode()
    if unlock_prompted:
        typed.append(PINS[p0])
        if not alnum_only(cur_pin):
            typed.append("zz11yy22")
            cur_pin = b"zz11yy22"
    new_pin = PINS[p1].encode()
    if typed_new:
        typed.append(PINS[p1])
        if not (alnum_only(new_pin) if anyp else policy_ok(new_pin)):
            typed.append("new1pin2")
            new_pin = b"new1pin2"
    with Env(platform, d, typed_pins=typed) as env:
        res = run(changepin.do_changepin if change else unlock.do_unlock, opts)
        if res.startswith("raised"):
            return False
        cmds = [blist(a)[1] for a in env.world.apdus()]
    unlock_cmd = 0xFE if platform == "ledger" else 0xA3
    ok = True
    # a PIN is sent for unlocking only to an onboarded device in bootloader mode that echoed correctly
    if d.unlock_pins:
        if not (MODES[m] == 2 and onb == 1 and echo):
            ok = False
        if bytes(d.unlock_pins[0]) != cur_pin or len(d.unlock_pins) != 1:
            ok = False
    elif 0x41 in cmds and not change:
        ok = False
    # (a PIN given on the command line is checked against the policy / any-pin; one typed for unlocking only has to be alphanumeric)
    pin_ok_for_unlock = True if unlock_prompted else (alnum_only(cur_pin) if anyp else policy_ok(cur_pin))
    if not change:
        # when the preconditions hold the PIN is presented
        if MODES[m] == 2 and onb == 1 and echo and pin_ok_for_unlock and len(d.unlock_pins) != 1:
            ok = False
        return ok
    # ---- change pin
    newp = new_pin
    new_ok = alnum_only(newp) if anyp else policy_ok(newp)
    if d.newpin_offered:
        offered = bytes(d.newpin_offered[0])
        if offered != newp or not new_ok or len(d.newpin_offered) != 1:
            ok = False
        if platform == "ledger" and MODES[m] != 2:
            ok = False
        if not nounlock and not (d.unlock_pins and ul != 0):
            ok = False       # with unlocking requested, the change only follows a successful unlock
    else:
        expected = new_ok and (nounlock or (pin_ok_for_unlock and MODES[m] == 2 and onb == 1 and echo and ul != 0)) \
            and (platform == "sgx" or MODES[m] == 2)
        if expected:
            ok = False
    return ok


# ------------------------------------------------------------------ public keys

class _Vk:
    def __init__(self, raw):
        self.raw = bytes(raw)

    def to_string(self, kind):
        if kind == "compressed":
            return b"\x02" + self.raw[1:33]
        return self.raw[1:]


class _Ecdsa:
    SECP256k1 = "secp256k1"

    class VerifyingKey:
        @staticmethod
        def from_string(b, curve=None):
            assert curve == "secp256k1"
            return _Vk(b)


DOC_PATHS = {"btc": "m/44'/0'/0'/0/0", "rsk": "m/44'/137'/0'/0/0", "mst": "m/44'/137'/1'/0/0",
             "tbtc": "m/44'/1'/0'/0/0", "trsk": "m/44'/1'/1'/0/0", "tmst": "m/44'/1'/2'/0/0"}


@obligation(tier="quick", parts=2, timeout=200, part_names=["ledger", "sgx"],
            bounds="six device keys: distinct tokens, 9 variants selected symbolically; device mode symbolic; "
                   "no-unlock flag true (unlocking is the previous obligation); ecdsa stubbed (key bytes pass through)",
            examples=[(0, dict(m=1, k0=1, k1=2)), (1, dict(m=1, k0=0, k1=2)), (0, dict(m=0, k0=1, k1=1)), (0, dict(m=3, k0=1, k1=1))])
def public_keys(m: int, k0: int, k1: int) -> bool:
    """
    pre: 0 <= m <= 3
    pre: 0 <= k0 <= 2 and 0 <= k1 <= 2
    post: _
    """
    platform = ["ledger", "sgx"][part()]
    d = AdminDevice(MODES[m])
    keys = {}
    for j, (name, pth) in enumerate(DOC_PATHS.items()):
        keys[pth] = [4, 17 * k0] + [0x20 + j] * 62 + [31 * k1]
    d.pubkeys = {tuple(path_bytes(pth)): v for pth, v in keys.items()}
    written = {}

    class F:
        def __init__(self, path):
            self.path = path
            written[path] = ""

        def write(self, s):
            written[self.path] += s

        def close(self):
            pass
    opts = Options(no_unlock=True, output_file_path="/out/keys.txt")
    import sim.base as sb
    with Env(platform, d) as env:
        sb.REAL_HEX[0] = True      # do_get_pubkeys parses the hex text of the keys again
        saved = (pubkeys.ecdsa, pubkeys.__dict__.get("open"), pubkeys.wait_for_reconnection)
        pubkeys.ecdsa = _Ecdsa
        pubkeys.open = lambda path, mode="r": F(path)
        pubkeys.wait_for_reconnection = lambda: None
        try:
            res = run(pubkeys.do_get_pubkeys, opts)
        finally:
            sb.REAL_HEX[0] = False
            pubkeys.ecdsa = saved[0]
            if saved[1] is None:
                del pubkeys.open
            else:
                pubkeys.open = saved[1]
            pubkeys.wait_for_reconnection = saved[2]
    if MODES[m] != 3:
        # not the signer: no keys can be had; the command fails and writes no key file
        return res != "ok" and "/out/keys.json" not in written
    if res != "ok" or "/out/keys.json" not in written:
        return False
    from sim.base import c_boundary
    doc = c_boundary(real_json.loads)(written["/out/keys.json"])
    want = {pth: bytes(v[1:]).hex() for pth, v in keys.items()}
    return doc == want
