"""C04 Device outcomes map onto the result codes documented for each command.

Real HSM2ProtocolLedger / HSM1ProtocolLedger handlers + real HSM2Dongle over the simulated
device; at exchange `k` of the command the device produces outcome (`kind`, `sw`, `op`):
all are solver variables.  Oracle: docs/protocol.md (documented code sets) and the firmware's
own error names (err.h, auth.h, bc_err.h) for the causes the documentation names.
"""
from harness.common import obligation, part, known
from harness.world import make_stack, handle
from harness.catalog import valid_request
from sim.base import raise_fault, blist, resp, FAULT_SW, FAULT_TIMEOUT, FAULT_WRITE, FAULT_READ
from sim.ledger import SimDevice

FAULT_OPCODE = 5

# (command, variant, name) ; one partition each
CASES = [
    ("sign", 0, "sign-auth-legacy"),
    ("sign", 2, "sign-auth-segwit"),
    ("sign", 1, "sign-hash"),
    ("getPubKey", 0, "getPubKey"),
    ("advanceBlockchain", 0, "advance-1block-1brother"),
    ("resetAdvanceBlockchain", 0, "reset"),
    ("blockchainState", 0, "state"),
    ("updateAncestorBlock", 0, "updancestor-1block"),
    ("blockchainParameters", 0, "parameters"),
    ("signerHeartbeat", 0, "signerHeartbeat"),
    ("uiHeartbeat", 0, "uiHeartbeat"),
    # thorough only
    ("advanceBlockchain", 1, "advance-2blocks-2brothers"),
    ("updateAncestorBlock", 1, "updancestor-2blocks"),
    # legacy protocol v1 (HSM1ProtocolLedger): every error is -2
    ("sign", 1, "v1-sign-hash"),
    ("getPubKey", 0, "v1-getPubKey"),
]
N_QUICK = 11
V1_CASES = (13, 14)
QUICK_CASES = list(range(N_QUICK)) + list(V1_CASES)

GENERIC = {-901, -902, -903, -904, -905, -906}
DOCUMENTED = {
    "version": {0},
    "sign": {0, -101, -102, -103},
    "getPubKey": {0, -103},
    "advanceBlockchain": {0, 1, -201, -202, -204, -205},
    "resetAdvanceBlockchain": {0},
    "blockchainState": {0},
    "updateAncestorBlock": {0, -201, -203, -204},
    "blockchainParameters": {0},
    "signerHeartbeat": {0, -301},
    "uiHeartbeat": {0, -301},
}

# firmware status names (auth.h / bc_err.h) whose cause docs/protocol.md names
AUTH_INVALID_PATH = 0x6A8F
SIGN_MESSAGE_CAUSES = [0x6A88, 0x6A8D, 0x6A8E, 0x6A97, 0x6A98]   # tx input index, tx hash, tx version, sighash mode, extradata
SIGN_RECEIPT_CAUSES = [0x6A8A, 0x6A8B]                            # receipt RLP / receipt invalid
SIGN_PROOF_CAUSES = [0x6A92, 0x6A94, 0x6A95, 0x6A96]              # node version, receipt hash, node chaining, receipt root
BC = 0x6B87  # PROT_INVALID; following enum values in order (bc_err.h)
BC_NAMES = ["PROT_INVALID", "RLP_INVALID", "BLOCK_TOO_OLD", "BLOCK_TOO_SHORT", "PARENT_HASH_INVALID",
            "RECEIPT_ROOT_INVALID", "BLOCK_NUM_INVALID", "BLOCK_DIFF_INVALID", "UMM_ROOT_INVALID",
            "BTC_HEADER_INVALID", "MERKLE_PROOF_INVALID", "BTC_CB_TXN_INVALID", "MM_RLP_LEN_MISMATCH",
            "BTC_DIFF_MISMATCH", "MERKLE_PROOF_MISMATCH", "MM_HASH_MISMATCH", "MERKLE_PROOF_OVERFLOW",
            "CB_TXN_OVERFLOW", "BUFFER_OVERFLOW", "CHAIN_MISMATCH", "TOTAL_DIFF_OVERFLOW",
            "ANCESTOR_TIP_MISMATCH", "CB_TXN_HASH_MISMATCH", "BROTHERS_TOO_MANY", "BROTHER_PARENT_MISMATCH",
            "BROTHER_SAME_AS_BLOCK", "BROTHER_ORDER_INVALID"]
BCV = {n: BC + i for i, n in enumerate(BC_NAMES)}
ADV_CHAINING = [BCV["CHAIN_MISMATCH"]]
ADV_POW = [BCV[n] for n in ("BTC_DIFF_MISMATCH", "MERKLE_PROOF_MISMATCH", "MM_HASH_MISMATCH", "CB_TXN_HASH_MISMATCH",
                            "BTC_CB_TXN_INVALID")]
ADV_BLOCKS = [BCV[n] for n in ("RLP_INVALID", "BLOCK_TOO_SHORT", "PARENT_HASH_INVALID", "BLOCK_NUM_INVALID",
                               "BLOCK_DIFF_INVALID", "UMM_ROOT_INVALID", "BTC_HEADER_INVALID", "MERKLE_PROOF_INVALID",
                               "BLOCK_TOO_OLD")]
ADV_BROTHERS = [BCV[n] for n in ("BROTHERS_TOO_MANY", "BROTHER_PARENT_MISMATCH", "BROTHER_SAME_AS_BLOCK",
                                 "BROTHER_ORDER_INVALID")]
UPD_TIP = [BCV["ANCESTOR_TIP_MISMATCH"]]
UPD_BLOCKS = [BCV[n] for n in ("RLP_INVALID", "BLOCK_TOO_SHORT", "PARENT_HASH_INVALID", "RECEIPT_ROOT_INVALID",
                               "BLOCK_NUM_INVALID", "BTC_HEADER_INVALID", "BLOCK_TOO_OLD")]


def named_cause_code(cmd, apdu, sw):
    """The code docs/protocol.md prescribes when the firmware raises `sw` while handling `apdu`
    (None: the documentation names no cause for this status at this step)."""
    a = blist(apdu)
    op = a[2] if len(a) > 2 else None
    if cmd == "getPubKey":
        return -103 if sw == AUTH_INVALID_PATH else None
    if cmd == "sign":
        if op == 0x01:
            return -103 if sw == AUTH_INVALID_PATH else None
        if op == 0x02:
            return -102 if sw in SIGN_MESSAGE_CAUSES else None
        if op == 0x04:
            return -101 if sw in SIGN_RECEIPT_CAUSES else None
        if op == 0x08:
            return -101 if sw in SIGN_PROOF_CAUSES else None
        return None
    if cmd == "advanceBlockchain":
        if op in (0x04, 0x09):      # block / brother chunk: the firmware validates while consuming
            if sw in ADV_CHAINING:
                return -201
            if sw in ADV_POW:
                return -202
            if sw in ADV_BLOCKS:
                return -204
            if sw in ADV_BROTHERS:
                return -205
        if op == 0x07 and sw == BCV["BROTHERS_TOO_MANY"]:
            return -205
        return None
    if cmd == "updateAncestorBlock":
        if op == 0x04:
            if sw in ADV_CHAINING:
                return -201
            if sw in UPD_TIP:
                return -203
            if sw in UPD_BLOCKS:
                return -204
        return None
    return None


def in_device_error_range(sw):
    return (0x69A0 <= sw <= 0x6BFF) or sw == 0x6D00


def kmax():
    """Number of exchanges of the fault-free run of this partition's request (concrete)."""
    return _KMAX[PARTS[part()][0]]


def case_request(i):
    cmd, var, _ = CASES[i]
    v1 = i in V1_CASES
    r = valid_request(cmd, var, version=1 if v1 else 5)
    if v1 and cmd == "sign":
        r["message"] = r["message"]["hash"]
    return r


FAULT_FREE_BROKEN = []


def _fault_free_exchanges(i):
    cmd, var, _ = CASES[i]
    d = _device(cmd)
    proto, dongle, world = make_stack(d, v1=i in V1_CASES)
    r = handle(proto, case_request(i))
    # (a fault-free run that does not succeed on the tree under check is reported by the `fault_free` obligation, not here:
    #  this function only sizes the partitions and must not stop the other obligations / properties from running)
    if not (r[0] == "reply" and r[1].get("errorcode") == 0):
        FAULT_FREE_BROKEN.append((cmd, var, repr(r)[:200]))
    return max(1, world.exchanges)


def _device(cmd):
    d = SimDevice()
    d.chunk = 255
    if cmd == "uiHeartbeat":
        d.mode_after_exit = [4, 3]
    return d


_KMAX = [_fault_free_exchanges(i) for i in range(len(CASES))]
# one partition per (case, exchange index): the fault position is concrete per partition,
# kind / status word / opcode stay symbolic
PARTS = [(i, k) for i in range(len(CASES)) for k in range(_KMAX[i])]
# partitions are ordered: quick cases first (so that the quick tier is a prefix)
PARTS = [p for p in PARTS if p[0] in QUICK_CASES] + [p for p in PARTS if p[0] not in QUICK_CASES]
N_PARTS_QUICK = len([p for p in PARTS if p[0] in QUICK_CASES])


def nparts(tier):
    return N_PARTS_QUICK if tier == "quick" else len(PARTS)


def part_name(p):
    return "%s@exchange%d" % (CASES[PARTS[p][0]][2], PARTS[p][1])


def run_case(i, k, kind, sw, op, v1=False):
    cmd, var, _ = CASES[i]
    v1 = i in V1_CASES
    d = _device(cmd)
    proto, dongle, world = make_stack(d, v1=v1)
    st = {"apdu": None, "last_op": None, "faulted": False}

    def hook(idx, apdu):
        if idx == k and kind != FAULT_OPCODE:
            st["apdu"] = apdu
            st["faulted"] = True
            raise_fault(kind, sw)
    world.fault_hook = hook
    if kind == FAULT_OPCODE:
        real_handle = d.handle

        def handle_op(apdu):
            r = real_handle(apdu)
            if world.exchanges - 1 == k:
                st["apdu"] = apdu
                st["faulted"] = True
                rl = blist(r)
                st["true_op"] = rl[2] if len(rl) > 2 else None
                if len(rl) > 2:
                    rl[2] = op
                if len(rl) == 3:
                    rl.append(1)   # well-formed for opcodes that carry a requested size
                r = resp(rl)
            st["last"] = r
            return r
        d.handle = handle_op
    out = handle(proto, case_request(i))
    return cmd, out, st, world, d


@obligation(tier="quick", parts=nparts, timeout=120, part_names=part_name,
            bounds="per (command, exchange index) partition: fault position = every exchange of the catalogue request, "
                   "outcome kind in {status word, time-out, write error, read error}, status word sw over all "
                   "0..65535 except those ledgerblue does not raise for (0x9000, 0x61xx, 0x6Cxx); chunk requests 255",
            examples=[(0, dict(kind=1, sw=0x6A87)), (1, dict(kind=1, sw=0x6A8D)), (16, dict(kind=1, sw=0x6B9A)),
                      (12, dict(kind=2, sw=0)), (40, dict(kind=3, sw=0)), (35, dict(kind=1, sw=0x6B9C))])
def status_at_step(kind: int, sw: int) -> bool:
    """
    pre: 1 <= kind <= 4
    pre: 0 <= sw <= 0xffff
    pre: sw != 0x9000 and not (0x6100 <= sw <= 0x61ff) and not (0x6c00 <= sw <= 0x6cff)
    post: _
    """
    if kind != FAULT_SW:
        sw = 0     # irrelevant for the other kinds
    i, k = PARTS[part()]
    cmd, out, st, world, d = run_case(i, k, kind, sw, 0)
    if not st["faulted"]:
        return True   # k beyond the exchanges actually performed: nothing injected
    ok = True
    if out[0] != "reply":
        # HSM2ProtocolError leaving the protocol = the server answers -906 (generic) and shuts down; anything
        # else leaves the client without an errorcode.  (4): a status inside the device's own error range
        # must never stop the manager; neither may a time-out or a link error (C11).
        ok = out[1] == "HSM2ProtocolError" and kind == FAULT_SW and not in_device_error_range(sw)
        return ok
    code = out[1].get("errorcode")
    # (1) documented set (legacy v1: 0 or -2)
    if i in V1_CASES:
        if code not in (0, -2):
            ok = False
    elif code not in DOCUMENTED[cmd] and code not in GENERIC:
        ok = False
    # (2) success only if the device reported success: the injected failure replaces the answer
    if cmd == "uiHeartbeat" and kind in (FAULT_WRITE, FAULT_READ) and blist(st["apdu"])[1] == 0xFF:
        pass  # exit exchanges are expected to end in a link error (USB re-enumeration)
    elif code in (0, 1):
        ok = False
    # (3) named causes
    if kind == FAULT_SW and i not in V1_CASES:
        want = named_cause_code(cmd, st["apdu"], sw)
        if want is not None and code != want:
            ok = False
    return ok


@obligation(tier="quick", parts=nparts, timeout=120, part_names=part_name,
            bounds="per (command, exchange index) partition: the answer is the conforming one with its opcode byte "
                   "replaced by op over 0..255",
            examples=[(15, dict(op=6)), (15, dict(op=5)), (1, dict(op=0x81)), (27, dict(op=9))])
def opcode_at_step(op: int) -> bool:
    """
    pre: 0 <= op <= 255
    post: _
    """
    i, k = PARTS[part()]
    cmd, out, st, world, d = run_case(i, k, FAULT_OPCODE, 0, op)
    if not st["faulted"]:
        return True
    if out[0] != "reply":
        return False
    code = out[1].get("errorcode")
    ok = True
    if i in V1_CASES:
        if code not in (0, -2):
            ok = False
    elif code not in DOCUMENTED[cmd] and code not in GENERIC:
        ok = False
    # codes 0 / 1 only if the last answer the manager saw reported total / partial success
    last = blist(st.get("last", []))
    last_op = last[2] if len(last) > 2 else None
    if cmd == "advanceBlockchain":
        if code == 0 and last_op != 0x06:
            ok = False
        if code == 1 and last_op != 0x05:
            ok = False
    elif cmd == "updateAncestorBlock":
        if code == 0 and last_op != 0x05:
            ok = False
        if code == 1:
            ok = False
    elif cmd == "sign":
        if code == 0 and last_op != 0x81:
            ok = False
    # ... and always when the device reports total / partial success in a well-formed answer at a point where
    # the firmware can do so: after it has consumed a complete header (block or brother) or an empty brother list
    a = blist(st["apdu"])
    req_op = a[2] if len(a) > 2 else None
    if cmd in ("advanceBlockchain", "updateAncestorBlock"):
        true_op = st.get("true_op")
        header_done = (req_op == 0x04 and true_op != 0x04) or (req_op == 0x09 and true_op not in (0x08, 0x09)) \
            or (req_op == 0x07 and a[3] == 0)
        if header_done:
            if cmd == "advanceBlockchain":
                if op == 0x05 and code != 1:
                    ok = False
                if op == 0x06 and code != 0:
                    ok = False
            elif op == 0x05 and code != 0:
                ok = False
    return ok


FF_ORDER = QUICK_CASES + [i for i in range(len(CASES)) if i not in QUICK_CASES]


@obligation(tier="quick", parts=lambda tier: len(QUICK_CASES) if tier == "quick" else len(CASES), timeout=120,
            part_names=lambda p: CASES[FF_ORDER[p]][2],
            bounds="sanity (non-vacuity): the fault-free run of every catalogue request, executed under the symbolic "
                   "tracer, is answered 0 with the same number of exchanges as the concrete run",
            examples=[(i, dict(dummy=0)) for i in range(len(CASES))])
def fault_free(dummy: int) -> bool:
    """
    pre: 0 <= dummy <= 1
    post: _
    """
    i = FF_ORDER[part()]
    cmd, out, st, world, d = run_case(i, 10 ** 6, FAULT_SW, 0x6A87, 0)
    return out[0] == "reply" and out[1].get("errorcode") == 0 and world.exchanges == _KMAX[i] and not world.violations


@obligation(tier="quick", parts=lambda tier: len(QUICK_CASES) if tier == "quick" else len(CASES), timeout=150,
            part_names=lambda p: "reconnect fails before: %s" % CASES[FF_ORDER[p]][2],
            bounds="pre-state: a link error is pending (the manager must reconnect first) and the reconnection fails 1..2 times (symbolic): "
                   "every command is answered with the device error code and the manager keeps running; then the command succeeds",
            examples=[(0, dict(fails=1)), (4, dict(fails=2)), (10, dict(fails=1))])
def pending_reconnect_fails(fails: int) -> bool:
    """
    pre: 1 <= fails <= 2
    post: _
    """
    from sim.base import comm_exception
    i = FF_ORDER[part()]
    cmd, var, _ = CASES[i]
    v1 = i in V1_CASES
    d = _device(cmd)
    proto, dongle, world = make_stack(d, v1=v1)
    (proto.protocol_v2 if v1 else proto)._comm_issue = True
    left = {"n": fails}

    def connect_hook():
        if left["n"] > 0:
            left["n"] -= 1
            raise comm_exception("No dongle found", 0x6F00)
    world.connect_hook = connect_hook
    for _ in range(fails):
        if handle(proto, case_request(i)) != ("reply", {"errorcode": -2 if v1 else -905}):
            return False
    out = handle(proto, case_request(i))
    return out[0] == "reply" and out[1].get("errorcode") == 0
