"""Builds the stack  protocol (real) -> dongle (real) -> simulated transport/device."""
from harness.common import NULL_LOGGER, REPLAY  # noqa: F401  (sets sys.path)
from sim.base import World, passthrough, quiet, install_format_stubs, install_env_stubs  # noqa: F401
from sim.ledger import SimDevice


class FixedPin:
    """Stand-in for ledger.pin.FileBasedPin where the PIN file is not the subject."""
    def __init__(self, pin=b"abcd1234", needs_change=False):
        self._pin = pin
        self._needs_change = needs_change
        self.new_pin = None
        self.events = []

    def get_pin(self):
        return self._pin

    def needs_change(self):
        return self._needs_change

    def start_change(self):
        self.events.append("start")
        self.new_pin = b"Zyxw9876"

    def get_new_pin(self):
        return self.new_pin

    commit_fails = False

    def commit_change(self):
        self.events.append("commit")
        if self.commit_fails:
            from ledger.pin import PinError
            raise PinError("Error commiting: injected")

    def abort_change(self):
        self.events.append("abort")


def make_stack(device=None, v1=False, platform="ledger", pin=None, connect=True, bytes_model=False, traced=(), native_validators=False):
    """Returns (protocol, dongle, world).  All classes are the repository's own."""
    import ledger.hsm2dongle as h
    from ledger.protocol import HSM2ProtocolLedger
    from ledger.protocol_v1 import HSM1ProtocolLedger
    from comm.platform import Platform
    Platform.set({"ledger": Platform.LEDGER, "tcp": Platform.X86, "sgx": Platform.SGX}[platform])   # as the manager_*.py entry points do
    device = device or SimDevice()
    world = World(device)
    world.install(bytes_model=bytes_model, traced=traced, native_validators=native_validators)
    if platform == "ledger":
        dongle = passthrough(h.HSM2Dongle)(False)
    elif platform == "tcp":
        from ledger.hsm2dongle_tcp import HSM2DongleTCP
        dongle = passthrough(HSM2DongleTCP)("host", 1234, False)
    else:
        from sgx.hsm2dongle import HSM2DongleSGX
        dongle = passthrough(HSM2DongleSGX)("host", 1234, False)
    quiet(dongle)
    pin = pin or FixedPin()
    if v1:
        proto = HSM1ProtocolLedger(pin, dongle)
        quiet(proto)
        quiet(proto.protocol_v2)
    else:
        proto = HSM2ProtocolLedger(pin, dongle)
        quiet(proto)
    if connect:
        dongle.connect()
        world.log.clear()
        world.exchanges = 0
    return proto, dongle, world


def handle(proto, request):
    """Run one request through the real protocol object.  Returns ('reply', dict) or
    ('raised', exception-class-name) for anything that would leave handle_request."""
    try:
        return ("reply", proto.handle_request(request))
    except BaseException as e:   # the code under test may let a BaseException escape (that is a finding)
        from harness.common import reraise_control_flow
        reraise_control_flow(e)
        import traceback
        from harness.common import note
        note("handle_request raised", type(e).__name__, "".join(traceback.format_exception(e))[-700:])
        return ("raised", type(e).__name__)
