"""C14 Clearing of signature placeholders is canonical and loses nothing else.

Real comm.bitcoin.get_unsigned_tx / _unsign_tx / _clear_all_but_last_op_from_scriptsig / _deserialize_tx on the
bitcoin.core shim (python-bitcoinlib 0.12.2 semantics; trusted base, validated against the repository's recorded
samples on every run) and the -102 mapping of HSM2ProtocolLedger._sign.

script   one input script: the SHAPE (sequence of <= 2 (T: 3) operations out of 8 kinds: direct push, PUSHDATA1/2/4,
         OP_0, OP_1..16, OP_1NEGATE, other opcode) is a partition; push contents (<= 2 bytes each), the small-int
         value and the opcode value are symbolic.  Oracle: own script reader.
frame    whole transaction: 24 symbolic bytes for version, outpoint index, sequence, output value and lock time;
         number of inputs / outputs and the (catalogue) scripts by partition.  Everything outside the script-sigs
         is preserved byte for byte, EVERY input is cleared.
errors   truncation at every offset (symbolic), trailing garbage, empty script, undecodable push:
         the sign request is answered -102 and the device sees nothing.
"""
import itertools
import os

from harness.common import obligation, part, reraise_control_flow
from harness.catalog import pat, varint, push, REDEEM, SIG, mk_tx, valid_request, TX_SIGNED_1IN
from harness.world import make_stack, handle
import harness.c04 as c04

import bitcoin.core as shim
import comm.bitcoin as cb

THOROUGH = os.environ.get("VERIF_TIER") == "thorough"
KINDS = ["D", "P1", "P2", "P4", "Z", "N", "M", "O"]
SHAPES = [s for n in (1, 2) for s in itertools.product(KINDS, repeat=n)]
SHAPES3 = [s for s in itertools.product(KINDS, repeat=3)]
# quick: all shapes of 1 and 2 operations + every last-op kind behind two pushes / two zeros
QUICK_SHAPES = SHAPES + [("D", "P1", k) for k in KINDS] + [("Z", "Z", k) for k in KINDS]
ALL_SHAPES = SHAPES + SHAPES3


def shapes_for(tier):
    return ALL_SHAPES if tier == "thorough" else QUICK_SHAPES


def _shape(i):
    return (ALL_SHAPES if THOROUGH else QUICK_SHAPES)[i]


def encode_op(kind, data, val):
    """Bytes of one operation as the CLIENT wrote it (not necessarily canonical)."""
    n = len(data)
    if kind == "D":
        return [n] + data
    if kind == "P1":
        return [0x4c, n] + data
    if kind == "P2":
        return [0x4d, n, 0] + data
    if kind == "P4":
        return [0x4e, n, 0, 0, 0] + data
    if kind == "Z":
        return [0x00]
    if kind == "N":
        return [0x51 + val % 16]
    if kind == "M":
        return [0x4f]
    return [0x61 + val % (256 - 0x61)]


def canonical_last(kind, data, val):
    """python-bitcoinlib re-encoding of the last operation: pushes become minimal pushes of the same data
    (an empty push becomes OP_0), opcodes stay."""
    if kind in ("D", "P1", "P2", "P4"):
        n = len(data)
        if n < 0x4c:
            return [n] + data
        return [0x4c, n] + data
    return encode_op(kind, data, val)


class HexModel:
    """Stands for the hex string of a byte list (bytes.fromhex inside comm.bitcoin returns the list)."""
    def __init__(self, v):
        self.v = v


class _BytesModel:
    @staticmethod
    def fromhex(x):
        if isinstance(x, HexModel):
            return shim.ByteList(x.v)
        return bytes.fromhex(x)


def symbolic_mode(on):
    shim.SYMBOLIC_OUTPUT = on
    if on:
        cb.bytes = _BytesModel
    elif "bytes" in cb.__dict__:
        del cb.bytes


@obligation(tier="quick", parts=lambda tier: len(shapes_for(tier)), timeout=200,
            part_names=lambda i: "script " + " ".join(_shape(i)),
            bounds="script shape = partition (72 shapes of 1..2 operations + 16 of 3; T: all 584 shapes of <= 3); per push 0..2 symbolic "
                   "content bytes (length symbolic), small-int value and opcode value symbolic",
            examples=[(0, dict(d0=b"ab", d1=b"", d2=b"", v=3)), (9, dict(d0=b"a", d1=b"xy", d2=b"", v=0)), (12, dict(d0=b"", d1=b"", d2=b"", v=200)),
                      (75, dict(d0=b"a", d1=b"b", d2=b"cd", v=1)), (3, dict(d0=b"", d1=b"", d2=b"", v=5))])
def script(d0: bytes, d1: bytes, d2: bytes, v: int) -> bool:
    """
    pre: len(d0) <= 2 and len(d1) <= 2 and len(d2) <= 2
    pre: 0 <= v <= 255
    post: _
    """
    shape = _shape(part())
    datas = [list(d0), list(d1), list(d2)]
    raw = []
    for k, kind in enumerate(shape):
        raw += encode_op(kind, datas[k], v)
    want = [0x00] * (len(shape) - 1) + canonical_last(shape[-1], datas[len(shape) - 1], v)
    symbolic_mode(True)
    try:
        txin = shim.CTxIn(shim.COutPoint(bytes(32), 1), shim.CScript(shim.ByteList(raw)), 7)
        out = cb._clear_all_but_last_op_from_scriptsig(txin)
        got = list(out.scriptSig.b)
        if got != want:
            return False
        # outpoint and sequence untouched; applying it again changes nothing
        if out.prevout.n != 1 or out.nSequence != 7 or list(out.prevout.hash) != [0] * 32:
            return False
        again = cb._clear_all_but_last_op_from_scriptsig(out)
        return list(again.scriptSig.b) == want
    except Exception as e:
        reraise_control_flow(e)
        return False
    finally:
        symbolic_mode(False)


SCRIPTSIGS = [b"\x00" + push(SIG) + push(REDEEM), b"\x00\x00" + push(REDEEM), push(SIG) + b"\x51", b"\x4c\x02ab" + b"\x4d\x03\x00xyz"]
CLEARED = [b"\x00\x00" + push(REDEEM), b"\x00\x00" + push(REDEEM), b"\x00\x51", b"\x00\x03xyz"]
FRAMES = [(1, 1), (1, 0), (2, 1), (2, 2), (3, 2)]


def le_bytes(bs):
    return list(bs)


@obligation(tier="quick", parts=len(FRAMES), timeout=240, part_names=lambda i: "%d input(s), %d output(s)" % FRAMES[i],
            bounds="numbers of inputs / outputs: 5 combinations (partition); 24 symbolic bytes: version (4), outpoint index of input 0 (4), "
                   "sequence of the last input (4), value of output 0 (8), lock time (4); script-sigs from a catalogue of 4",
            examples=[(0, dict(f=bytes(24))), (2, dict(f=bytes(range(24)))), (4, dict(f=bytes([255] * 24))), (1, dict(f=bytes([1] * 24)))])
def frame(f: bytes) -> bool:
    """
    pre: len(f) == 24
    post: _
    """
    nin, nout = FRAMES[part()]
    fb = list(f)
    version, idx0, seq_last, val0, lock = fb[0:4], fb[4:8], fb[8:12], fb[12:20], fb[20:24]

    def build(scripts):
        out = list(version) + list(varint(nin))
        for i in range(nin):
            s = scripts[i % len(scripts)] if scripts is SCRIPTSIGS else scripts[i % len(scripts)]
            out += list(pat(32, 10 + i)) + (idx0 if i == 0 else [i, 0, 0, 0])
            out += list(varint(len(s))) + list(s)
            out += seq_last if i == nin - 1 else [0xfe, 0xff, 0xff, 0xff]
        out += list(varint(nout))
        for j in range(nout):
            spk = pat(20 + j, 30 + j)
            out += (val0 if j == 0 else [j, 0, 0, 0, 0, 0, 0, 0]) + list(varint(len(spk))) + list(spk)
        return out + lock
    raw = build(SCRIPTSIGS)
    want = build(CLEARED)
    # version 0x00000000.. with marker bytes: a first input count of 0 followed by 1 would read as the segwit form;
    # nin >= 1 here, so the byte after the version is never 0
    symbolic_mode(True)
    try:
        got = cb.get_unsigned_tx(HexModel(raw), hex=False)
        if list(got) != want:
            return False
        # idempotent
        again = cb.get_unsigned_tx(HexModel(want), hex=False)
        return list(again) == want
    except Exception as e:
        reraise_control_flow(e)
        from harness.common import note
        import traceback
        note("raised", "".join(traceback.format_exception(e))[-500:])
        return False
    finally:
        symbolic_mode(False)


BAD_TXS = [
    ("empty script-sig", mk_tx([(pat(32, 1), 0, b"", 0xffffffff)], [(1, pat(25, 2))])),
    ("second input has an empty script-sig", mk_tx([(pat(32, 1), 0, b"\x00" + push(REDEEM), 1), (pat(32, 2), 0, b"", 1)], [(1, pat(25, 2))])),
    ("push longer than the script", mk_tx([(pat(32, 1), 0, b"\x05ab", 1)], [(1, pat(25, 2))])),
    ("PUSHDATA1 without length", mk_tx([(pat(32, 1), 0, b"\x00\x4c", 1)], [(1, pat(25, 2))])),
    ("PUSHDATA2 with half a length", mk_tx([(pat(32, 1), 0, b"\x4d\x01", 1)], [(1, pat(25, 2))])),
    ("trailing garbage", TX_SIGNED_1IN + b"\x00"),
]


@obligation(tier="quick", parts=len(BAD_TXS) + 1, timeout=300,
            part_names=lambda i: "truncated at a symbolic offset" if i == len(BAD_TXS) else BAD_TXS[i][0],
            bounds="undecodable transactions: 6 catalogue cases + the signed sample truncated at every byte offset 0..len-1 (symbolic); "
                   "pre-state: a reconnection is pending after an earlier link failure, or not (symbolic); a well-formed sign request was "
                   "served just before, or the same undecodable request is sent twice (symbolic)",
            examples=[(i, dict(k=0, pending=False)) for i in range(len(BAD_TXS))] + [(len(BAD_TXS), dict(k=10, pending=False)),
                                                                                     (len(BAD_TXS), dict(k=len(TX_SIGNED_1IN) - 1, pending=True)),
                                                                                     (0, dict(k=0, pending=True)),
                                                                                     (5, dict(k=0, pending=False, prior=True)),
                                                                                     (3, dict(k=0, pending=False, prior=False))])
def errors(k: int, pending: bool, prior: bool = False) -> bool:
    """
    pre: 0 <= k < len(TX_SIGNED_1IN)
    post: _
    """
    p = part()
    if p < len(BAD_TXS):
        txhex = BAD_TXS[p][1].hex()
    else:
        txhex = TX_SIGNED_1IN.hex()[:2 * k]
    req = valid_request("sign", 0)
    req["message"]["tx"] = txhex
    proto, dongle, world = make_stack(c04._device("sign"))
    if p >= len(BAD_TXS):
        prior = False          # (the truncation partition explores the offset; history variants are left to the catalogue cases)
    if prior:
        # a well-formed sign request was served just before (whatever the manager remembers of it must not leak into this one)
        if handle(proto, valid_request("sign", 0))[1].get("errorcode") != 0:
            return False
        world.exchanges = 0
    proto._comm_issue = pending       # the state an earlier request that hit a link failure leaves behind
    n0 = len(world.log)
    out = handle(proto, req)
    if not (out == ("reply", {"errorcode": -102}) and world.exchanges == 0 and len(world.log) == n0):
        return False
    if prior or p >= len(BAD_TXS):
        return True
    # the very same request once more on the same manager (nothing remembered from the first time makes it acceptable)
    req2 = valid_request("sign", 0)
    req2["message"]["tx"] = txhex
    out = handle(proto, req2)
    return out == ("reply", {"errorcode": -102}) and world.exchanges == 0 and len(world.log) == n0


# ------------------------------------------------------------------ what is relayed for signing, in both sighash modes

RELAY_TXS = [(TX_SIGNED_1IN, None), (mk_tx([(pat(32, 1), 0, b"\x00" + push(SIG) + push(REDEEM), 0xfffffffe),
                                            (pat(32, 4), 7, push(SIG) + push(SIG) + push(REDEEM), 3)], [(1000, pat(25, 2))], version=2, locktime=17), None)]
RELAY_CLEARED = [mk_tx([(pat(32, 1), 0, b"\x00\x00" + push(REDEEM), 0xffffffff)], [(200000000, pat(25, 2)), (4800000000, pat(23, 3))]),
                 mk_tx([(pat(32, 1), 0, b"\x00\x00" + push(REDEEM), 0xfffffffe), (pat(32, 4), 7, b"\x00\x00" + push(REDEEM), 3)],
                       [(1000, pat(25, 2))], version=2, locktime=17)]


@obligation(tier="quick", parts=2, timeout=200, part_names=["legacy", "segwit"],
            bounds="the transaction the DEVICE receives in an authorized sign, for both sighash modes (partition) and 2 partially signed "
                   "catalogue transactions (symbolic selection), input index symbolic; and: an empty script-sig is answered -102 in both modes",
            examples=[(0, dict(t=0, inp=0, empty=False)), (1, dict(t=1, inp=1, empty=False)), (1, dict(t=0, inp=0, empty=True))])
def relayed_form(t: int, inp: int, empty: bool) -> bool:
    """
    pre: 0 <= t <= 1
    pre: 0 <= inp <= 0xffffffff
    post: _
    """
    from sim.ledger import SimDevice
    mode = ["legacy", "segwit"][part()]
    req = valid_request("sign", 0 if mode == "legacy" else 2)
    req["message"]["input"] = inp
    d = SimDevice()
    proto, dongle, world = make_stack(d, bytes_model=True)
    if empty:
        req["message"]["tx"] = BAD_TXS[0][1].hex()
        return handle(proto, req) == ("reply", {"errorcode": -102}) and world.exchanges == 0
    req["message"]["tx"] = RELAY_TXS[t][0].hex()
    out = handle(proto, req)
    if out[0] != "reply" or out[1].get("errorcode") != 0:
        return False
    return d.parsed_sign()["tx"] == list(RELAY_CLEARED[t])
