"""C06 A Ledger attestation is accepted only if every link up to the root key verifies.

Real admin.certificate_v1 (HSMCertificate._parse / validate_and_get_values, HSMCertificateElement.is_valid /
get_value / get_pubkey / get_tweak, HSMCertificateRoot) with the crypto primitives inside that module replaced by
an UNINTERPRETED token algebra: keys, tweaks, HMACs and signatures are tagged tuples; `ecdsa_verify(key, msg,
sig)` returns a symbolic boolean: the verdict v_e of element e when it is asked about exactly the right triple
(certifier's key - tweaked with HMAC-SHA256(tweak, key) iff e declares a tweak -, e's message, e's signature) and
one shared, independent symbolic boolean `w` for ANY other triple - so that wiring mistakes (wrong key, tweak
ignored, message of another element, altered signature bytes, cached verdicts) change the result for some
assignment, which the solver finds.  The element graph (parents) is a partition.
"""
import itertools
import os

from harness.common import obligation, part, reraise_control_flow
from harness.catalog import pat

import admin.certificate_v1 as c1
from admin.certificate import HSMCertificate

THOROUGH = os.environ.get("VERIF_TIER") == "thorough"
NAMES = ["device", "attestation", "ui", "signer"]


def shapes(n):
    """All parent assignments (index or 'root') in which every element reaches the root."""
    out = []
    for parents in itertools.product(["root"] + list(range(n)), repeat=n):
        ok = True
        for e in range(n):
            seen = set()
            cur = e
            while cur != "root":
                if cur in seen or parents[cur] == cur:
                    ok = False
                    break
                seen.add(cur)
                cur = parents[cur]
            if not ok:
                break
        if ok:
            out.append(parents)
    return out


SHAPES = [(n, p) for n in (1, 2, 3) for p in shapes(n)]
# four elements: a family of shapes (all 125 do not finish within the thorough budget: ~1000 s each)
SHAPES4 = [(4, p) for p in [
    ("root", 0, 1, 2),          # chain device <- attestation <- ui <- signer
    ("root", 0, 1, 1),          # the real Ledger shape: ui and signer both signed by attestation
    ("root", 0, 0, 0),          # star
    ("root", "root", 0, 1),     # two roots
    (1, 2, 3, "root"),          # reversed chain
    ("root", 0, 0, 2),          # mixed depth
    ("root", "root", "root", "root"),
    (3, 3, 3, "root"),
]]


def all_shapes(tier):
    return SHAPES + (SHAPES4 if tier == "thorough" else [])


ALL = SHAPES + SHAPES4


def shape_name(i):
    n, p = ALL[i]
    return "%d elements, signed_by=%s" % (n, ["root" if x == "root" else NAMES[x] for x in p])


# ------------------------------------------------------------------ token algebra

class TokKey:
    def __init__(self, world, ident):
        self.world = world
        self.id = ident

    def serialize(self, compressed=True):
        return ("ser", self.id, compressed)

    def tweak_add(self, tweak):
        return TokKey(self.world, ("tweaked", self.id, tweak))

    def ecdsa_deserialize(self, sig):
        return ("sig", bytes(sig))

    def ecdsa_verify(self, message, sig):
        return self.world.verdict(self.id, bytes(message), sig)


class CryptoWorld:
    def __init__(self, n):
        self.n = n
        self.right = {}        # triple -> element index
        self.v = [True] * n
        self.w = False
        self.bad_keys = set()  # key bytes that do not parse
        self.queries = []

    # ---- what admin.certificate_v1 sees as `ec`, `hmac`, `hashlib`
    def PublicKey(self, b, raw=False):
        if not raw:
            raise TypeError("raw expected")
        b = bytes(b)
        if b in self.bad_keys:
            raise Exception("invalid public key")
        return TokKey(self, ("key", b))

    def new(self, key, msg, digestmod=None):
        assert digestmod == "sha256-token"
        return _Hmac(("hmac", bytes(key), msg))

    sha256 = "sha256-token"

    def verdict(self, key_id, message, sig):
        t = (key_id, message, sig)
        self.queries.append(t)
        e = self.right.get(t)
        if e is None:
            return self.w
        return self.v[e]


class _Hmac:
    def __init__(self, tok):
        self.tok = tok

    def digest(self):
        return self.tok


def msg_of(e):
    # device: key = last 65 bytes; attestation: key = from byte 1; ui / signer: the whole message
    # short messages: the extractors are slices (b[-65:], b[1:], b[:]) and behave the same on short strings, and
    # every byte costs tracing time.  (Long messages: see the catalogue obligation `extractors`.)
    return bytes([0xA0 + e, 0x10 + e, 0x20 + e, 0x30 + e, 0x40 + e])


def value_of(name, msg):
    return {"device": msg[-65:], "attestation": msg[1:], "ui": msg, "signer": msg}[name]


def sig_of(e):
    # (odd elements carry 0x31 as first byte: the verifier must hand the primitive the bytes as they are)
    return bytes([0x30 + (e % 2), e + 1])


def tweak_of(e):
    return bytes([0x70 + e])


ROOT_KEY = bytes([0x04, 0x99, 0x01])
OTHER_ROOT = bytes([0x04, 0x98, 0x02])


def build(n, parents, tweaks):
    els = []
    for e in range(n):
        m = {"name": NAMES[e], "message": msg_of(e).hex(), "signature": sig_of(e).hex(),
             "signed_by": "root" if parents[e] == "root" else NAMES[parents[e]]}
        if tweaks[e]:
            m["tweak"] = tweak_of(e).hex()
        els.append(m)
    return {"version": 1, "targets": [NAMES[e] for e in range(n)], "elements": els}


def install(world):
    saved = (c1.ec, c1.hmac, c1.hashlib)
    c1.ec = world
    c1.hmac = world
    c1.hashlib = world
    return saved


def uninstall(saved):
    c1.ec, c1.hmac, c1.hashlib = saved


def expected(n, parents, v, keybad, root_ok_for):
    """Oracle: for every target, walk from the root down; first failing element or the value."""
    out = {}
    for t in range(n):
        chain = []
        cur = t
        while cur != "root":
            chain.append(cur)
            cur = parents[cur]
        chain.reverse()           # topmost first
        res = None
        for k, e in enumerate(chain):
            if k == 0:
                link = root_ok_for(e)
            else:
                certifier = chain[k - 1]
                link = v[e] and not keybad[certifier]     # the certifier's key must parse
            if not link:
                res = (False, NAMES[e])
                break
        if res is None:
            res = (True, value_of(NAMES[t], msg_of(t)).hex(), tweak_of(t).hex() if None else None)
        out[NAMES[t]] = res
    return out


@obligation(tier="quick", parts=lambda tier: len(all_shapes(tier)), timeout=200, part_names=shape_name,
            bounds="element graphs: every parent assignment over 1..3 (T: 4) elements in which each element reaches the root (20 shapes; T: + 8 shapes of 4 elements incl. the real Ledger shape, without key-parse failures) "
                   "is a partition; symbolic per element: verdict of its own link, tweak declared or not, its embedded key parses or not; "
                   "one more symbolic verdict shared by every OTHER (key, message, signature) triple; a second validation of the same "
                   "object against another root with independent verdicts",
            examples=[(0, dict(v0=True, v1=True, v2=True, v3=True, w=False, t0=False, t1=True, t2=False, t3=False, k0=False, k1=False, k2=False,
                               k3=False, r2=True)),
                      (5, dict(v0=True, v1=False, v2=True, v3=True, w=True, t0=True, t1=True, t2=False, t3=False, k0=False, k1=False, k2=False,
                               k3=False, r2=False)),
                      (12, dict(v0=True, v1=True, v2=True, v3=True, w=False, t0=False, t1=False, t2=True, t3=False, k0=True, k1=False, k2=False,
                                k3=False, r2=True)),
                      (19, dict(v0=False, v1=True, v2=True, v3=True, w=True, t0=False, t1=False, t2=False, t3=False, k0=False, k1=False,
                                k2=False, k3=False, r2=True))])
def chain(v0: bool, v1: bool, v2: bool, v3: bool, w: bool, t0: bool, t1: bool, t2: bool, t3: bool,
          k0: bool, k1: bool, k2: bool, k3: bool, r2: bool) -> bool:
    """
    post: _
    """
    n, parents = ALL[part()]
    v = [v0, v1, v2, v3][:n]
    tweaks = [t0, t1, t2, t3][:n]
    keybad = [k0, k1, k2, k3][:n] if n < 4 else [False] * 4
    world = CryptoWorld(n)
    world.v = v
    world.w = w
    for e in range(n):
        if keybad[e]:
            world.bad_keys.add(value_of(NAMES[e], msg_of(e)))

    def key_id_of(certifier):
        return ("key", ROOT_KEY) if certifier == "root" else ("key", value_of(NAMES[certifier], msg_of(certifier)))

    for e in range(n):
        kid = key_id_of(parents[e])
        if tweaks[e]:
            kid = ("tweaked", kid, ("hmac", tweak_of(e), ("ser", kid, False)))
        world.right[(kid, msg_of(e), ("sig", sig_of(e)))] = e
    saved = install(world)
    try:
        cert = HSMCertificate(build(n, parents, tweaks))
        root = c1.HSMCertificateRoot(ROOT_KEY.hex())
        got = cert.validate_and_get_values(root)
        want = expected(n, parents, v, keybad, lambda e: v[e])
        ok = True
        for t in range(n):
            g = got.get(NAMES[t])
            wv = want[NAMES[t]]
            if wv[0]:
                exp = (True, wv[1], tweak_of(t).hex() if tweaks[t] else None)
            else:
                exp = wv
            if g != exp:
                ok = False
        if len(got) != n:
            ok = False
        # the same object validated against ANOTHER root: the topmost links are judged afresh (verdict r2 for
        # elements signed by the root, whatever the first validation said); lower links keep their own verdicts
        if ok:
            for e in range(n):
                if parents[e] == "root":
                    kid = ("key", OTHER_ROOT)
                    if tweaks[e]:
                        kid = ("tweaked", kid, ("hmac", tweak_of(e), ("ser", kid, False)))
                    world.right[(kid, msg_of(e), ("sig", sig_of(e)))] = n      # index n: the verdict r2
            world.v = v + [r2]
            # (the triples with the first root are 'other' triples from now on)
            for e in range(n):
                if parents[e] == "root":
                    kid = ("key", ROOT_KEY)
                    if tweaks[e]:
                        kid = ("tweaked", kid, ("hmac", tweak_of(e), ("ser", kid, False)))
                    world.right.pop((kid, msg_of(e), ("sig", sig_of(e))), None)
            got2 = cert.validate_and_get_values(c1.HSMCertificateRoot(OTHER_ROOT.hex()))
            want2 = expected(n, parents, v, keybad, lambda e: r2)
            for t in range(n):
                wv = want2[NAMES[t]]
                exp = (True, wv[1], tweak_of(t).hex() if tweaks[t] else None) if wv[0] else wv
                if got2.get(NAMES[t]) != exp:
                    ok = False
        return ok
    except Exception as e:
        reraise_control_flow(e)
        return False
    finally:
        uninstall(saved)


@obligation(tier="quick", parts=2, timeout=60, part_names=["unparseable root key", "signature that does not deserialise"],
            bounds="error paths: a root key that does not parse is refused by HSMCertificateRoot; a signature the primitive cannot "
                   "deserialise makes that element invalid",
            examples=[(0, dict(x=True)), (1, dict(x=True))])
def error_paths(x: bool) -> bool:
    """
    post: _
    """
    world = CryptoWorld(1)
    saved = install(world)
    try:
        if part() == 0:
            world.bad_keys.add(ROOT_KEY)
            try:
                c1.HSMCertificateRoot(ROOT_KEY.hex())
                return False
            except ValueError:
                return True

        class K(TokKey):
            def ecdsa_deserialize(self, sig):
                raise Exception("bad DER")
        real_pk = world.PublicKey
        world.PublicKey = lambda b, raw=False: K(world, ("key", bytes(b)))
        cert = HSMCertificate(build(1, ("root",), [False]))
        got = cert.validate_and_get_values(c1.HSMCertificateRoot(ROOT_KEY.hex()))
        return got == {"device": (False, "device")}
    finally:
        uninstall(saved)


@obligation(tier="quick", parts=4, timeout=60, part_names=NAMES,
            bounds="value extraction on long messages (100 bytes): device = last 65 bytes, attestation = from byte 1, ui / signer = whole",
            examples=[(i, dict(x=True)) for i in range(4)])
def extractors(x: bool) -> bool:
    """
    post: _
    """
    name = NAMES[part()]
    msg = pat(100, 7)
    el = c1.HSMCertificateElement({"name": name, "message": msg.hex(), "signature": "3000", "signed_by": "root"})
    want = {"device": msg[35:], "attestation": msg[1:], "ui": msg, "signer": msg}[name]
    return el.get_value() == want.hex()
