"""C09 Bring-up never endangers the device and never serves from an unsafe state."""
from harness.common import obligation, part, known, REPLAY

from ledger.version import HSM2FirmwareVersion


@obligation(tier="quick", timeout=60,
            bounds="6 version components, each any integer (device bytes are 0..255; decided over all of Z)",
            examples=[(0, dict(a=5, b=4, c=1, x=5, y=4, z=1)), (0, dict(a=5, b=4, c=1, x=5, y=5, z=0)),
                      (0, dict(a=5, b=4, c=1, x=4, y=0, z=0)), (0, dict(a=5, b=4, c=1, x=5, y=3, z=9))])
def version_supports(a: int, b: int, c: int, x: int, y: int, z: int) -> bool:
    """
    post: _
    """
    got = HSM2FirmwareVersion(a, b, c).supports(HSM2FirmwareVersion(x, y, z))
    # oracle (statement): same major version, (minor, patch) not newer than the manager's
    want = (a == x) and (y < b or (y == b and z <= c))
    return got == want
