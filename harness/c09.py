"""C09 Bring-up never endangers the device and never serves from an unsafe state."""
from harness.common import obligation, part, known, REPLAY

from ledger.version import HSM2FirmwareVersion


@obligation(tier="quick", timeout=60,
            bounds="6 version components, each any integer (device bytes are 0..255; decided over all of Z)",
            examples=[(0, dict(a=5, b=4, c=1, x=5, y=4, z=1)), (0, dict(a=5, b=4, c=1, x=5, y=5, z=0)),
                      (0, dict(a=5, b=4, c=1, x=4, y=0, z=0)), (0, dict(a=5, b=4, c=1, x=5, y=3, z=9))])
def version_supports(a: int, b: int, c: int, x: int, y: int, z: int) -> bool:
    """
    post: _
    """
    got = HSM2FirmwareVersion(a, b, c).supports(HSM2FirmwareVersion(x, y, z))
    # oracle (statement): same major version, (minor, patch) not newer than the manager's
    want = (a == x) and (y < b or (y == b and z <= c))
    return got == want


# ---------------------------------------------------------------------------------------------
# Bring-up: real TCPServer.run -> real initialize_device / _handle_bootloader / _check_version ->
# real HSM2Dongle / HSM2DongleTCP / HSM2DongleSGX over the simulated device.
# ---------------------------------------------------------------------------------------------
import comm.server as server
from harness.common import NULL_LOGGER, reraise_control_flow
from harness.world import make_stack, FixedPin
from sim.base import blist
from sim.ledger import SimDevice

PLATFORMS = ["ledger", "tcp", "sgx"]
MODECLASS = ["bootloader", "signer", "other"]
# bootloader partitions are split further on (echo ok, pin needs change)
BRINGUP_PARTS = []
for _p in PLATFORMS:
    for _e in (True, False):
        for _c in (False, True):
            BRINGUP_PARTS.append((_p, "bootloader", _e, _c))
    BRINGUP_PARTS.append((_p, "signer", True, False))
    BRINGUP_PARTS.append((_p, "other", True, False))


def bringup_name(i):
    p, m, e, c = BRINGUP_PARTS[i]
    return "%s/%s%s%s" % (p, m, "" if m != "bootloader" else ("/echo-ok" if e else "/echo-bad"),
                          "" if m != "bootloader" else ("/pin-needs-change" if c else "/pin-current"))


class _FakeTCPServer:
    allow_reuse_address = False
    created = []

    def __init__(self, addr, handler):
        _FakeTCPServer.created.append(self)
        self.served = False

    def serve_forever(self):
        self.served = True

    def server_close(self):
        pass

    def shutdown(self):
        pass


class _SocketServerStub:
    TCPServer = _FakeTCPServer
    StreamRequestHandler = object


def supported(v):
    # the manager is 5.4.1: same major version, minor.patch not newer
    return v[0] == 5 and (v[1] < 4 or (v[1] == 4 and v[2] <= 1))


def run_manager(proto):
    """Real comm.server.TCPServer.run with socketserver stubbed.  Returns True iff it started serving."""
    _FakeTCPServer.created = []
    real = server.socketserver
    server.socketserver = _SocketServerStub
    try:
        srv = server.TCPServer("127.0.0.1", 9999, proto)
        srv.logger = NULL_LOGGER
        try:
            srv.run()
        except Exception as e:
            reraise_control_flow(e)
    finally:
        server.socketserver = real
    return len(_FakeTCPServer.created) == 1 and _FakeTCPServer.created[0].served


@obligation(tier="quick", parts=len(BRINGUP_PARTS), timeout=150, part_names=bringup_name,
            bounds="platform x initial mode class x (echo, pin-needs-change) are partitions; symbolic: onboard byte 0..255, UI and signer "
                   "version triples (6 bytes 0..255), PIN retries 0..255, unlock answer byte 0..255, mode byte after leaving the "
                   "bootloader 0..255, mode byte of the 'other' class (any byte but 2 and 3), device reaction to a new PIN {ack, refuse, other status, write error, read "
                   "error, time-out}, PIN commit succeeds / fails",
            examples=[(0, dict(onb=1, u0=5, u1=4, u2=1, s0=5, s1=4, s2=1, retries=3, unlock=1, after=3, other=4)),
                      (0, dict(onb=1, u0=5, u1=4, u2=1, s0=5, s1=4, s2=1, retries=1, unlock=1, after=3, other=4)),
                      (4, dict(onb=1, u0=5, u1=4, u2=1, s0=5, s1=5, s2=0, retries=3, unlock=1, after=3, other=4)),
                      (4, dict(onb=0, u0=5, u1=4, u2=1, s0=5, s1=4, s2=0, retries=3, unlock=1, after=3, other=4)),
                      (5, dict(onb=1, u0=5, u1=4, u2=1, s0=5, s1=4, s2=0, retries=3, unlock=1, after=3, other=0xff)),
                      (12, dict(onb=1, u0=5, u1=3, u2=9, s0=5, s1=0, s2=0, retries=2, unlock=9, after=3, other=4)),
                      (1, dict(onb=1, u0=5, u1=4, u2=1, s0=5, s1=4, s2=1, retries=3, unlock=1, after=3, other=4))])
def bring_up(onb: int, u0: int, u1: int, u2: int, s0: int, s1: int, s2: int, retries: int, unlock: int,
             after: int, other: int, react: int = 0, commit_fails: bool = False) -> bool:
    """
    pre: 0 <= onb <= 255 and 0 <= retries <= 255 and 0 <= unlock <= 255 and 0 <= after <= 255
    pre: 0 <= u0 <= 255 and 0 <= u1 <= 255 and 0 <= u2 <= 255
    pre: 0 <= s0 <= 255 and 0 <= s1 <= 255 and 0 <= s2 <= 255
    pre: 0 <= other <= 255 and other != 2 and other != 3
    pre: 0 <= react <= 5
    post: _
    """
    platform, mclass, echo_ok, change = BRINGUP_PARTS[part()]
    mode = {"bootloader": 2, "signer": 3, "other": other}[mclass]
    d = SimDevice()
    d.mode = mode
    d.onboarded = onb
    d.ui_version = (u0, u1, u2)
    d.signer_version = (s0, s1, s2)
    d.retries = retries
    d.echo_ok = echo_ok
    d.unlock_ok = unlock
    d.mode_after_exit = after
    d.newpin_reaction = ["ack", "refuse", "sw", "write", "read", "timeout"][react]
    pin = FixedPin(needs_change=change)
    pin.commit_fails = commit_fails
    proto, dongle, world = make_stack(d, platform=platform, pin=pin, connect=False)
    served = run_manager(proto)

    uiv, sgv = (u0, u1, u2), (s0, s1, s2)
    gates = onb == 1 and mode == 2 and supported(uiv) and echo_ok and retries >= 2
    if onb != 1:
        want = False
    elif mode == 3:
        want = supported(sgv)
    elif mode == 2:
        want = gates and unlock != 0 and (not change) and after == 3 and supported(sgv)
    else:
        want = False
    ok = served == want

    # the PIN / unlock command: at most once, only behind all the gates, and whenever the gates hold
    cmds = [blist(a)[1] for a in world.apdus()]
    unlock_cmd = 0xA3 if platform == "sgx" else 0xFE
    n_unlock = len([c for c in cmds if c == unlock_cmd])
    n_pinbytes = len([c for c in cmds if c == 0x41])
    if n_unlock > 1:
        ok = False
    if (n_unlock > 0 or n_pinbytes > 0) and not gates:
        ok = False
    if gates and n_unlock != 1:
        ok = False
    if n_unlock == 1:
        # ... and only after onboard check, mode, UI version, echo and retries were obtained
        first = cmds.index(0x41) if n_pinbytes > 0 else cmds.index(unlock_cmd)
        echo_cmd = 0xA4 if platform == "sgx" else 0x02
        retries_cmd = 0xA2 if platform == "sgx" else 0x45
        # (the statement fixes WHICH checks precede the PIN, not their order)
        if sorted(cmds[:first]) != sorted([0x06, 0x43, 0x06, echo_cmd, retries_cmd]):
            ok = False
        if len(d.unlock_pins) != 1 or bytes(d.unlock_pins[0]) != pin.get_pin():
            ok = False
    # a PIN change is only ever attempted after a successful unlock
    if len(d.newpin_offered) > 0 and not (gates and unlock != 0 and change):
        ok = False
    return ok
