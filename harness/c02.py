"""C02 Requests are classified exactly as the protocol specification prescribes.

Real HSM2ProtocolLedger / HSM1ProtocolLedger.handle_request over the logging simulated device.
A request = a valid catalogue request in which ONE field (partition) deviates; the deviation
(absent | int over Z | bool | short symbolic string | None | list | dict | float | boundary
strings) is symbolic.  Oracle = harness/spec.py (set of admissible verdicts).
Assertion: verdict admissible AND (verdict is an error code => the device saw no exchange).
"""
import os

from harness.common import obligation, part
from harness.world import make_stack, handle
from harness.catalog import valid_request, TX_SIGNED_1IN, TX_2IN, TX_UNSIGNED_1IN, pat
from harness.spec import allowed_v5, allowed_v1, ACCEPT
import harness.c04 as c04

THOROUGH = os.environ.get("VERIF_TIER") == "thorough"
SMAX = 3 if THOROUGH else 2     # symbolic characters per string (4 characters: > 5000 paths per partition, never finishes)
KEYID_SMAX = 2 if THOROUGH else 1   # symbolic characters inside a key path element

KNOWN_TX = {TX_SIGNED_1IN.hex(), TX_2IN.hex(), TX_UNSIGNED_1IN.hex()}


def tx_decodable(txhex):
    # catalogue transactions decode; the short symbolic strings (<= 2 bytes) never do
    return txhex in KNOWN_TX


from harness.catalog import BLOCK_A, BLOCK_B, BRO_1, BRO_2, BLOCK_17, BLOCK_18
KNOWN_HEADERS = {b.hex() for b in (BLOCK_A, BLOCK_B, BRO_1, BRO_2, BLOCK_17, BLOCK_18)}


def header_decodable(h):
    return h in KNOWN_HEADERS


def contact_only(world):
    """C02 only needs to know WHETHER the device is contacted: the first exchange times out, which ends the
    command at once (the reply is then -905) and keeps every accepted path short."""
    from sim.base import raise_fault, FAULT_TIMEOUT

    def hook(idx, apdu):
        raise_fault(FAULT_TIMEOUT)
    world.fault_hook = hook


def classify(out, world):
    if out[0] != "reply":
        return ("raised", out[1])
    code = out[1].get("errorcode")
    contacted = world.exchanges > 0
    return (code, contacted)


def admissible(verdict, allowed, cmd_contacts_device=True):
    code, contacted = verdict
    if code == "raised":
        return False
    if contacted:
        # the manager went to the device: only admissible if acceptance is
        return ACCEPT in allowed
    # no exchange: either an admissible error code, or an accepted command that needs no device
    if code in allowed:
        return True
    return ACCEPT in allowed and not cmd_contacts_device


# ------------------------------------------------------------------ deviations

BOUNDARY_STRINGS = [
    "version", "sign", "getPubKey", "nope", "Sign", "advanceBlockchain", "signerHeartbeat", "uiHeartbeat",
    pat(31, 1).hex(), pat(32, 1).hex(), pat(33, 1).hex(), pat(15, 2).hex(), pat(16, 2).hex(), pat(17, 2).hex(),
    "", "0x" + pat(32, 1).hex(), pat(32, 1).hex().upper(), pat(32, 1).hex()[:-1], "zz" * 32,
    "m/44'/0'/0'/0/0", "m/44'/0'/0'/0", "m/44'/0'/0'/0/0/0", "m/44'/2147483648/0'/0/0", "m/44'/2147483647'/0'/0/0",
    "44'/0'/0'/0/0", "m/44'/0'/0'//0", "m/44'/0'/0'/0/-1", "m/44''/0'/0'/0/0", "m/", "legacy", "segwit", "Legacy",
    # the right number of CHARACTERS but, because of blanks bytes.fromhex skips, one or two bytes short
    "  " + pat(31, 1).hex(), pat(30, 1).hex() + "    ", " " + pat(15, 2).hex() + " ", pat(31, 1).hex()[:30] + "  " + pat(31, 1).hex()[30:],
]

NKINDS = 10


def deviate(kind, ival, sval):
    """(present, value) of the deviating field."""
    if kind == 0:
        return (False, None)
    if kind == 1:
        return (True, ival)
    if kind == 2:
        return (True, ival % 2 == 0)
    if kind == 3:
        return (True, sval)
    if kind == 4:
        return (True, None)
    if kind == 5:
        return (True, [])
    if kind == 6:
        return (True, {})
    if kind == 7:
        return (True, 1.5)
    if kind == 8:
        return (True, [sval])
    return (True, BOUNDARY_STRINGS[ival % len(BOUNDARY_STRINGS)])


def string_for(path, sval):
    """The symbolic characters are placed where they matter: inside one element of a key path."""
    if path[-1] == "keyId":
        return "m/44'/" + sval[:KEYID_SMAX] + "/0'/0/0"
    return sval


def set_path(req, path, present, value):
    node = req
    for p in path[:-1]:
        node = node[p]
    if present:
        node[path[-1]] = value
    else:
        node.pop(path[-1], None)


# (command, variant, field path)
FIELDS = [
    ("getPubKey", 0, ("keyId",)),
    ("getPubKey", 0, ("version",)),
    ("getPubKey", 0, ("command",)),
    ("sign", 0, ("keyId",)),
    ("sign", 0, ("auth",)),
    ("sign", 0, ("auth", "receipt")),
    ("sign", 0, ("auth", "receipt_merkle_proof")),
    ("sign", 0, ("message",)),
    ("sign", 0, ("message", "tx")),
    ("sign", 0, ("message", "input")),
    ("sign", 0, ("message", "sighashComputationMode")),
    ("sign", 0, ("message", "extra")),
    ("sign", 2, ("message", "witnessScript")),
    ("sign", 2, ("message", "outpointValue")),
    ("sign", 2, ("message", "sighashComputationMode")),
    ("sign", 1, ("message", "hash")),
    ("sign", 1, ("message", "extra")),
    ("sign", 1, ("auth",)),
    ("sign", 1, ("keyId",)),
    ("advanceBlockchain", 0, ("blocks",)),
    ("advanceBlockchain", 0, ("brothers",)),
    ("updateAncestorBlock", 0, ("blocks",)),
    ("signerHeartbeat", 0, ("udValue",)),
    ("uiHeartbeat", 0, ("udValue",)),
    ("blockchainState", 0, ("version",)),
    ("blockchainState", 0, ("extra",)),
    ("resetAdvanceBlockchain", 0, ("version",)),
    ("blockchainParameters", 0, ("command",)),
    ("version", 0, ("version",)),
]


def field_name(p):
    c, v, path = FIELDS[p]
    return "%s[%d].%s" % (c, v, ".".join(path))


def _ascii(s):
    return all(ord(ch) < 128 for ch in s)


@obligation(tier="quick", parts=len(FIELDS), timeout=300, part_names=field_name,
            bounds="one deviating field per partition (29 command/field pairs); deviation kind in {absent, int (any integer; "
                   "any integer), bool, ASCII string of <= 2 (T: 3) symbolic characters, null, "
                   "[], {}, 1.5, [string], 24 boundary strings}; protocol v5",
            examples=[(0, dict(kind=0, ival=0, sval="")), (3, dict(kind=9, ival=21, sval="")), (9, dict(kind=2, ival=0, sval="")),
                      (13, dict(kind=1, ival=2 ** 64, sval="")), (8, dict(kind=3, ival=0, sval="ab")),
                      (22, dict(kind=9, ival=12, sval="")), (1, dict(kind=1, ival=5, sval="")), (1, dict(kind=7, ival=5, sval=""))])
def one_field_v5(kind: int, ival: int, sval: str) -> bool:
    """
    pre: 0 <= kind < NKINDS
    pre: len(sval) <= SMAX and _ascii(sval)
    post: _
    """
    cmd, var, path = FIELDS[part()]
    present, value = deviate(kind, ival, string_for(path, sval))
    if path[-1] == "tx" and kind in (3, 8) and not THOROUGH:
        return True      # every valid 1-byte hex string reaches the transaction parser: ~500 slow paths, thorough tier only
    if path[-1] in ("command", "blocks", "brothers") and kind in (3, 8):
        return True      # command: used as a dict key; blocks: decoded natively. Symbolic strings would be enumerated
                         # there; the boundary strings / list_field / C03.hostile_block cover these fields
    req = valid_request(cmd, var)
    set_path(req, path, present, value)
    spec_req = valid_request(cmd, var)
    set_path(spec_req, path, present, value)
    allowed = allowed_v5(spec_req, tx_decodable, header_decodable)
    d = c04._device(cmd)
    proto, dongle, world = make_stack(d, traced=TRACED_FOR.get(path[-1], ()), bytes_model=True)
    contact_only(world)
    out = handle(proto, req)
    needs_device = not (type(spec_req) is dict and spec_req.get("command") == "version")
    return admissible(classify(out, world), allowed, needs_device)


# helpers that must be executed symbolically when the deviating (symbolic) string flows into them
TRACED_FOR = {"tx": ("get_unsigned_tx", "get_tx_hash"), "witnessScript": ("encode_varint",)}


V1_FIELDS = [
    ("getPubKey", ("keyId",)), ("getPubKey", ("version",)), ("getPubKey", ("command",)),
    ("sign", ("keyId",)), ("sign", ("message",)), ("sign", ("version",)), ("version", ("version",)),
]


def v1_request(cmd):
    r = valid_request(cmd, 1, version=1)
    if cmd == "sign":
        r["message"] = r["message"]["hash"]
    return r


@obligation(tier="quick", parts=len(V1_FIELDS), timeout=150,
            part_names=lambda p: "v1 %s.%s" % (V1_FIELDS[p][0], ".".join(V1_FIELDS[p][1])),
            bounds="protocol v1: same deviations, 7 command/field pairs",
            examples=[(4, dict(kind=9, ival=9, sval="")), (4, dict(kind=9, ival=8, sval="")), (5, dict(kind=1, ival=5, sval="")),
                      (2, dict(kind=3, ival=0, sval="sign"))])
def one_field_v1(kind: int, ival: int, sval: str) -> bool:
    """
    pre: 0 <= kind < NKINDS
    pre: len(sval) <= SMAX and _ascii(sval)
    post: _
    """
    cmd, path = V1_FIELDS[part()]
    present, value = deviate(kind, ival, string_for(path, sval))
    if path[-1] in ("command",) and kind in (3, 8):
        return True
    req = v1_request(cmd)
    set_path(req, path, present, value)
    spec_req = v1_request(cmd)
    set_path(spec_req, path, present, value)
    allowed = allowed_v1(spec_req)
    proto, dongle, world = make_stack(c04._device(cmd), v1=True)
    contact_only(world)
    out = handle(proto, req)
    needs_device = not (type(spec_req) is dict and spec_req.get("command") == "version")
    return admissible(classify(out, world), allowed, needs_device)


NONDICT = [None, True, 0, 1.5, "sign", [], ["command"], [{"command": "version"}]]


@obligation(tier="quick", parts=2, timeout=60, part_names=["v5", "v1"],
            bounds="non-object JSON values: null, booleans, integers (any), 1.5, strings (<= 4 symbolic chars), [], lists",
            examples=[(0, dict(k=0, ival=0, sval="")), (1, dict(k=8, ival=7, sval="")), (0, dict(k=9, ival=0, sval="x"))])
def non_object(k: int, ival: int, sval: str) -> bool:
    """
    pre: 0 <= k <= 9
    pre: len(sval) <= SMAX and _ascii(sval)
    post: _
    """
    v1 = part() == 1
    if k < len(NONDICT):
        req = NONDICT[k]
    elif k == 8:
        req = ival
    else:
        req = sval
    proto, dongle, world = make_stack(v1=v1)
    out = handle(proto, req)
    return classify(out, world) == ((-2 if v1 else -901), False)


# ------------------------------------------------------------------ lists

def elem(kind, sval):
    return [sval, 7, None, [], pat(40, 3).hex(), "", "zz"][kind]


@obligation(tier="quick", parts=4, timeout=200,
            part_names=["sign.auth.receipt_merkle_proof", "advanceBlockchain.blocks", "advanceBlockchain.brothers",
                        "updateAncestorBlock.blocks"],
            bounds="list fields: length 0..2 (T: 0..3), every element independently in {ASCII string <= 2 symbolic chars, 7, null, [], "
                   "valid hex, '', 'zz'}; for brothers additionally the blocks/brothers length relation",
            examples=[(0, dict(n=1, k0=4, k1=0, k2=0, s="")), (0, dict(n=2, k0=4, k1=1, k2=0, s="")),
                      (2, dict(n=2, k0=4, k1=4, k2=0, s="")), (1, dict(n=0, k0=0, k1=0, k2=0, s=""))])
def list_field(n: int, k0: int, k1: int, k2: int, s: str) -> bool:
    """
    pre: 0 <= n <= (3 if THOROUGH else 2)
    pre: 0 <= k0 <= 6 and 0 <= k1 <= 6 and 0 <= k2 <= 6
    pre: len(s) <= 2 and _ascii(s)
    post: _
    """
    which = part()
    ks = [k0, k1, k2][:n]
    if which != 0:
        s = "ab"     # block strings are decoded natively: symbolic characters would be enumerated (see C03.hostile_block)

    def build():
        if which == 0:
            r = valid_request("sign", 0)
            r["auth"]["receipt_merkle_proof"] = [elem(k, s) for k in ks]
        elif which == 1:
            r = valid_request("advanceBlockchain", 0)
            r["blocks"] = [elem(k, s) for k in ks]
        elif which == 2:
            r = valid_request("advanceBlockchain", 0)
            # one block: brothers = n lists; lists built from the element kinds
            r["brothers"] = [([elem(k, s)] if k != 3 else elem(k, s)) if k != 2 else None for k in ks]
        else:
            r = valid_request("updateAncestorBlock", 0)
            r["blocks"] = [elem(k, s) for k in ks]
        return r
    req, spec_req = build(), build()
    allowed = allowed_v5(spec_req, tx_decodable, header_decodable)
    cmd = spec_req["command"]
    proto, dongle, world = make_stack(c04._device(cmd))
    contact_only(world)
    out = handle(proto, req)
    return admissible(classify(out, world), allowed)


# ------------------------------------------------------------------ second stage after a link failure

@obligation(tier="quick", parts=3, timeout=90, part_names=["auth missing", "tx undecodable", "message hash+extra"],
            bounds="pre-state: pending-reconnect flag symbolic {set, clear}; a sign request that passes the generic gate but is "
                   "rejected by the second (ledger-side) validation must not touch the device (no reconnect either)",
            examples=[(0, dict(flag=True)), (1, dict(flag=True)), (2, dict(flag=False))])
def rejected_sign_after_link_failure(flag: bool) -> bool:
    """
    post: _
    """
    which = part()
    req = valid_request("sign", 0)
    if which == 0:
        del req["auth"]
        want = -101
    elif which == 1:
        req["message"]["tx"] = "aabb"
        want = -102
    else:
        req = valid_request("sign", 1)
        req["message"]["extra"] = "00"
        want = -102
    proto, dongle, world = make_stack(c04._device("sign"))
    proto._comm_issue = flag
    out = handle(proto, req)
    return out == ("reply", {"errorcode": want}) and world.exchanges == 0 and len(world.log) == 0


# ------------------------------------------------------------------ two fields deviating at once (thorough tier)

SIGN_FIELDS = [("keyId",), ("auth",), ("auth", "receipt"), ("auth", "receipt_merkle_proof"), ("message",), ("message", "tx"),
               ("message", "input"), ("message", "sighashComputationMode"), ("message", "extra"), ("version",)]
PAIRS = [(a, b) for i, a in enumerate(SIGN_FIELDS) for b in SIGN_FIELDS[i + 1:]
         if not (len(a) == 1 and len(b) == 2 and b[0] == a[0])]       # (a field inside a deviating parent is moot)


@obligation(tier="thorough", parts=len(PAIRS), timeout=300, thorough_timeout=900,
            part_names=lambda p: "sign: %s + %s" % (".".join(PAIRS[p][0]), ".".join(PAIRS[p][1])),
            bounds="authorized sign request with TWO fields deviating at once (every pair of 10 fields, partition); each deviation among "
                   "{absent, integer (symbolic), bool, null, [], {}, 1.5, boundary string (symbolic index)}: the verdict must be one the "
                   "documents admit for the combination (the precedence between simultaneous errors is left open by them)",
            examples=[(0, dict(k1=0, k2=0, i1=0, i2=0)), (10, dict(k1=1, k2=9, i1=7, i2=3)), (30, dict(k1=4, k2=2, i1=0, i2=1))])
def two_fields_v5(k1: int, k2: int, i1: int, i2: int) -> bool:
    """
    pre: 0 <= k1 < NKINDS and 0 <= k2 < NKINDS
    pre: k1 != 3 and k1 != 8 and k2 != 3 and k2 != 8
    post: _
    """
    f1, f2 = PAIRS[part()]
    p1, v1 = deviate(k1, i1, "")
    p2, v2 = deviate(k2, i2, "")

    def build():
        r = valid_request("sign", 0)
        set_path(r, f1, p1, v1)
        try:
            set_path(r, f2, p2, v2)
        except (TypeError, KeyError, AttributeError):
            pass                     # the parent of the second field is no longer an object
        return r
    req, spec_req = build(), build()
    allowed = allowed_v5(spec_req, tx_decodable, header_decodable)
    proto, dongle, world = make_stack(c04._device("sign"), bytes_model=True)
    contact_only(world)
    out = handle(proto, req)
    return admissible(classify(out, world), allowed)
