"""Concrete catalogue of requests / payloads (the enumerated, non-symbolic dimension).

Everything here is generated independently of the middleware: own RLP encoder, own
SHA-256 compression function (for coinbase midstates), own transaction serialiser.
"""
import hashlib

# ---------------------------------------------------------------- RLP (own encoder)


def _be(n):
    out = []
    while n:
        out.insert(0, n & 0xff)
        n >>= 8
    return bytes(out)


def rlp_bytes(b):
    b = bytes(b)
    if len(b) == 1 and b[0] < 0x80:
        return b
    if len(b) <= 55:
        return bytes([0x80 + len(b)]) + b
    lb = _be(len(b))
    return bytes([0xb7 + len(lb)]) + lb + b


def rlp_list(items_encoded):
    payload = b"".join(items_encoded)
    if len(payload) <= 55:
        return bytes([0xc0 + len(payload)]) + payload
    lb = _be(len(payload))
    return bytes([0xf7 + len(lb)]) + lb + payload


# ---------------------------------------------------------------- SHA-256 midstate (own)

_K = [
    0x428a2f98, 0x71374491, 0xb5c0fbcf, 0xe9b5dba5, 0x3956c25b, 0x59f111f1, 0x923f82a4, 0xab1c5ed5,
    0xd807aa98, 0x12835b01, 0x243185be, 0x550c7dc3, 0x72be5d74, 0x80deb1fe, 0x9bdc06a7, 0xc19bf174,
    0xe49b69c1, 0xefbe4786, 0x0fc19dc6, 0x240ca1cc, 0x2de92c6f, 0x4a7484aa, 0x5cb0a9dc, 0x76f988da,
    0x983e5152, 0xa831c66d, 0xb00327c8, 0xbf597fc7, 0xc6e00bf3, 0xd5a79147, 0x06ca6351, 0x14292967,
    0x27b70a85, 0x2e1b2138, 0x4d2c6dfc, 0x53380d13, 0x650a7354, 0x766a0abb, 0x81c2c92e, 0x92722c85,
    0xa2bfe8a1, 0xa81a664b, 0xc24b8b70, 0xc76c51a3, 0xd192e819, 0xd6990624, 0xf40e3585, 0x106aa070,
    0x19a4c116, 0x1e376c08, 0x2748774c, 0x34b0bcb5, 0x391c0cb3, 0x4ed8aa4a, 0x5b9cca4f, 0x682e6ff3,
    0x748f82ee, 0x78a5636f, 0x84c87814, 0x8cc70208, 0x90befffa, 0xa4506ceb, 0xbef9a3f7, 0xc67178f2]
_H0 = [0x6a09e667, 0xbb67ae85, 0x3c6ef372, 0xa54ff53a, 0x510e527f, 0x9b05688c, 0x1f83d9ab, 0x5be0cd19]
_M = 0xffffffff


def _rotr(x, n):
    return ((x >> n) | (x << (32 - n))) & _M


def sha256_midstate(prefix):
    """State words after compressing `prefix` (length multiple of 64)."""
    assert len(prefix) % 64 == 0
    h = list(_H0)
    for off in range(0, len(prefix), 64):
        blk = prefix[off:off + 64]
        w = [int.from_bytes(blk[i:i + 4], "big") for i in range(0, 64, 4)]
        for i in range(16, 64):
            s0 = _rotr(w[i - 15], 7) ^ _rotr(w[i - 15], 18) ^ (w[i - 15] >> 3)
            s1 = _rotr(w[i - 2], 17) ^ _rotr(w[i - 2], 19) ^ (w[i - 2] >> 10)
            w.append((w[i - 16] + s0 + w[i - 7] + s1) & _M)
        a, b, c, d, e, f, g, hh = h
        for i in range(64):
            S1 = _rotr(e, 6) ^ _rotr(e, 11) ^ _rotr(e, 25)
            ch = (e & f) ^ ((~e) & _M & g)
            t1 = (hh + S1 + ch + _K[i] + w[i]) & _M
            S0 = _rotr(a, 2) ^ _rotr(a, 13) ^ _rotr(a, 22)
            mj = (a & b) ^ (a & c) ^ (b & c)
            t2 = (S0 + mj) & _M
            hh, g, f, e, d, c, b, a = g, f, e, (d + t1) & _M, c, b, a, (t1 + t2) & _M
        h = [(x + y) & _M for x, y in zip(h, [a, b, c, d, e, f, g, hh])]
    return h


def compress_coinbase(full, nblocks=1):
    """RSK 'compressed' coinbase: 8-byte counter | 32-byte midstate | rest of the tx."""
    n = 64 * nblocks
    assert len(full) > n
    ms = sha256_midstate(full[:n])
    return n.to_bytes(8, "big") + b"".join(x.to_bytes(4, "big") for x in ms) + full[n:]


def coinbase_hash(full):
    """What the device checks: reversed double SHA-256 of the full coinbase."""
    return bytes(reversed(hashlib.sha256(hashlib.sha256(full).digest()).digest()))


def pat(n, seed):
    return bytes((seed * 31 + i * 7 + 3) & 0xff for i in range(n))


def mk_header(nfields=19, seed=1, cb_len=150, cb_blocks=1, extra_len=5, mmproof_len=64, diff_len=3,
              fields_override=None):
    """Synthetic RSK block header as (rlp_bytes, info).  Field layout (RSK): 0 parent, 1 unclesHash,
    2 coinbase, 3 stateRoot, 4 txTrie, 5 receiptTrie, 6 logsBloom(256), 7 difficulty, 8 number,
    9 gasLimit, 10 gasUsed, 11 timestamp, 12 extraData, 13 paidFees, 14 minGasPrice, 15 uncleCount,
    [16 ummRoot], btc header(80), merkle proof, coinbase tx."""
    base = [pat(32, seed), pat(32, seed + 1), pat(20, seed + 2), pat(32, seed + 3), pat(32, seed + 4),
            pat(32, seed + 5), pat(256, seed + 6), pat(diff_len, seed + 7) or b"\x01", bytes([seed & 0x7f or 1]),
            pat(3, seed + 8), b"", pat(4, seed + 9), pat(extra_len, seed + 10), b"", b"\x01", b"\x00"]
    full_cb = pat(cb_len, seed + 20)
    cb = compress_coinbase(full_cb, cb_blocks)
    umm = [pat(20, seed + 11)] if nfields in (18, 20) else []
    if nfields in (19, 20):
        fields = base + umm + [pat(80, seed + 12), pat(mmproof_len, seed + 13), cb]
    elif nfields in (17, 18):
        fields = base + umm + [pat(80, seed + 12)]
    else:
        fields = (base + [pat(80, seed + 12), pat(mmproof_len, seed + 13), cb] + [b"\x01"] * 30)[:nfields]
    if fields_override:
        fields = fields_override(fields)
    enc = [rlp_bytes(f) for f in fields]
    raw = rlp_list(enc)
    # merge-mining payload: the list without merkle proof and coinbase tx (and without btc header)
    if len(fields) in (19, 20):
        mm_enc = enc[:-3]
        hash_enc = enc[:-2]
    else:
        mm_enc = enc[:-1]
        hash_enc = enc
    info = {
        "nfields": len(fields),
        "mm_payload_len": len(b"".join(mm_enc)),
        "hash_preimage": rlp_list(hash_enc),
        "cb_hash": coinbase_hash(full_cb) if len(fields) in (19, 20) else None,
        "raw": raw,
    }
    return raw, info


# ---------------------------------------------------------------- BTC transactions (own serialiser)

def varint(n):
    if n < 0xfd:
        return bytes([n])
    if n <= 0xffff:
        return b"\xfd" + n.to_bytes(2, "little")
    if n <= 0xffffffff:
        return b"\xfe" + n.to_bytes(4, "little")
    return b"\xff" + n.to_bytes(8, "little")


def mk_tx(inputs, outputs, version=1, locktime=0):
    """inputs: [(txid32, n, scriptSig bytes, sequence)], outputs: [(value, scriptPubKey)]"""
    out = version.to_bytes(4, "little", signed=True) + varint(len(inputs))
    for (h, n, s, seq) in inputs:
        out += h + n.to_bytes(4, "little") + varint(len(s)) + s + seq.to_bytes(4, "little")
    out += varint(len(outputs))
    for (v, spk) in outputs:
        out += v.to_bytes(8, "little", signed=True) + varint(len(spk)) + spk
    out += locktime.to_bytes(4, "little")
    return out


def push(data):
    n = len(data)
    if n < 0x4c:
        return bytes([n]) + data
    if n <= 0xff:
        return b"\x4c" + bytes([n]) + data
    if n <= 0xffff:
        return b"\x4d" + n.to_bytes(2, "little") + data
    return b"\x4e" + n.to_bytes(4, "little") + data


REDEEM = pat(105, 77)
SIG = b"\x30\x45" + pat(69, 5) + b"\x01"

TX_UNSIGNED_1IN = mk_tx([(pat(32, 1), 0, b"\x00\x00" + push(REDEEM), 0xffffffff)],
                        [(200000000, pat(25, 2)), (4800000000, pat(23, 3))])
TX_SIGNED_1IN = mk_tx([(pat(32, 1), 0, b"\x00" + push(SIG) + push(REDEEM), 0xffffffff)],
                      [(200000000, pat(25, 2)), (4800000000, pat(23, 3))])
TX_2IN = mk_tx([(pat(32, 1), 0, b"\x00" + push(SIG) + push(REDEEM), 0xffffffff),
                (pat(32, 4), 7, b"\x00\x00" + push(REDEEM), 0xfffffffe)],
               [(1000, pat(25, 2))], version=2, locktime=17)

KEY_PATHS = [
    "m/44'/0'/0'/0/0",
    "m/44'/1'/0'/0/0",
    "m/44'/137'/0'/0/0",
    "m/44'/137'/1'/0/0",
    "m/44'/1'/1'/0/0",
    "m/44'/1'/2'/0/0",
]


def path_bytes(spec):
    """Independent little-endian encoding of a BIP32 path: count | 4 bytes LE per element."""
    els = spec[2:].split("/")
    out = bytes([len(els)])
    for e in els:
        if e.endswith("'"):
            v = int(e[:-1]) + 0x80000000
        else:
            v = int(e)
        out += v.to_bytes(4, "little")
    return out


RECEIPT = rlp_list([rlp_bytes(b"\x01"), rlp_bytes(pat(3, 9)), rlp_bytes(pat(60, 10)), rlp_list([])])
PROOF = [pat(40, 11), pat(1, 12), pat(255, 13)]

HASH32 = pat(32, 42).hex()
UD16 = pat(16, 43).hex()
UD32 = pat(32, 44).hex()

BLOCK_A, BLOCK_A_INFO = mk_header(19, seed=1)
BLOCK_B, BLOCK_B_INFO = mk_header(20, seed=2, cb_len=300, cb_blocks=2, extra_len=60)
BRO_1, BRO_1_INFO = mk_header(19, seed=3)
BRO_2, BRO_2_INFO = mk_header(20, seed=4)
BLOCK_17, BLOCK_17_INFO = mk_header(17, seed=5)
BLOCK_18, BLOCK_18_INFO = mk_header(18, seed=6)

COMMANDS = ["version", "sign", "getPubKey", "advanceBlockchain", "resetAdvanceBlockchain",
            "blockchainState", "updateAncestorBlock", "blockchainParameters", "signerHeartbeat",
            "uiHeartbeat"]


def valid_request(cmd, variant=0, version=5):
    """A well-formed request for `cmd` (fresh dict every call)."""
    r = {"command": cmd, "version": version}
    if cmd == "version":
        return {"command": "version"}
    if cmd == "getPubKey":
        r["keyId"] = KEY_PATHS[variant % 6]
    elif cmd == "sign":
        r["keyId"] = KEY_PATHS[variant % 6]
        if variant == 1:      # unauthorized (hash)
            r["message"] = {"hash": HASH32}
        elif variant == 2:    # authorized segwit
            r["auth"] = {"receipt": RECEIPT.hex(), "receipt_merkle_proof": [p.hex() for p in PROOF]}
            r["message"] = {"tx": TX_SIGNED_1IN.hex(), "input": 0, "sighashComputationMode": "segwit",
                            "witnessScript": pat(71, 50).hex(), "outpointValue": 123456789}
        else:                 # authorized legacy
            r["auth"] = {"receipt": RECEIPT.hex(), "receipt_merkle_proof": [p.hex() for p in PROOF]}
            r["message"] = {"tx": TX_SIGNED_1IN.hex(), "input": 0, "sighashComputationMode": "legacy"}
    elif cmd == "advanceBlockchain":
        if variant == 1:
            r["blocks"] = [BLOCK_A.hex(), BLOCK_B.hex()]
            r["brothers"] = [[BRO_1.hex(), BRO_2.hex()], []]
        else:
            r["blocks"] = [BLOCK_A.hex()]
            r["brothers"] = [[BRO_1.hex()]]
    elif cmd == "updateAncestorBlock":
        r["blocks"] = [BLOCK_A.hex()] if variant == 0 else [BLOCK_A.hex(), BLOCK_17.hex()]
    elif cmd == "signerHeartbeat":
        r["udValue"] = UD16
    elif cmd == "uiHeartbeat":
        r["udValue"] = UD32
    return r
