"""C01 Signing relays to the device exactly what the client asked to have signed.

Compositional:
 chunk_policy   real HSM2Dongle._send_data_in_chunks (+ real _send_command) against a device whose chunk
                requests and termination behaviour are symbolic; payload bytes symbolic.
 chunk_long     same, 600-byte payload, two symbolic request sizes 1..255 (covers the 254/255 boundary).
 layout         real HSM2ProtocolLedger._sign -> sign_authorized against the conforming device that PARSES the
                stream as the firmware does; input index, outpoint value symbolic over their full ranges;
                paths / transactions / witness scripts / receipts / proofs from the catalogue; 3 chunk policies.
 early_stop     device stops consuming a part early / reports success early: reply successful iff every part
                was consumed completely and SUCCESS was reported.
 unauthorized   sign by hash through both protocol classes; DER signature bytes symbolic.
"""
import os

from harness.common import obligation, part
from harness.world import make_stack, handle
from harness.catalog import (valid_request, KEY_PATHS, path_bytes, TX_SIGNED_1IN, TX_UNSIGNED_1IN, TX_2IN, RECEIPT, PROOF,
                             pat, varint, rlp_bytes, mk_tx, push, REDEEM, SIG)
from harness.c13 import der_oracle
from sim.base import HB, resp, blist, hexof, World, passthrough, quiet, mkbytes
from sim.ledger import SimDevice

import ledger.hsm2dongle as h

THOROUGH = os.environ.get("VERIF_TIER") == "thorough"
DMAX = 6 if THOROUGH else 4
NREQ = 6 if THOROUGH else 4

OP = 0x04            # the operation being served (TX_RECEIPT)
NEXT_OK = 0x08       # the allowed next operation
FOREIGN = 0x55


class ChunkDevice:
    """Serves one chunked part: asks for `reqs[i]` bytes at step i; at step `stop_at` it answers with `stop_op`
    (allowed next op / foreign op), before that with the same op."""
    def __init__(self, reqs, stop_at, stop_op):
        self.reqs = reqs
        self.stop_at = stop_at
        self.stop_op = stop_op
        self.received = []
        self.chunks = []
        self.requested = []
        self.step = 0
        self.violations = []

    def handle(self, apdu):
        a = blist(apdu)
        assert a[0] == 0x80 and a[1] == 0x02 and a[2] == OP
        body = a[3:]
        self.chunks.append(body)
        self.received = self.received + body
        i = self.step
        self.step += 1
        if i >= self.stop_at:
            return resp([0x80, 0x02, self.stop_op, 0x01])
        r = self.reqs[i] if i < len(self.reqs) else 255
        self.requested.append(r)
        return resp([0x80, 0x02, OP, r])


def new_dongle(device):
    world = World(device)
    world.install()
    d = passthrough(h.HSM2Dongle)(False)
    quiet(d)
    d.connect()
    world.log.clear()
    world.exchanges = 0
    return d, world


@obligation(tier="quick", parts=4, timeout=200,
            part_names=["expect_full / stops at allowed op", "expect_full / stops at foreign op", "partial ok / allowed op",
                        "partial ok / foreign op"],
            bounds="payload: 0..4 (T: 6) symbolic bytes; initial request and 3 (T: 5) further requests each symbolic 1..255; the device "
                   "leaves the operation at a symbolic step 0..4 (T: 6) - i.e. early, exactly, or late; next op allowed / foreign and "
                   "expect_full_data are partitions",
            examples=[(0, dict(data=b"abcd", r0=2, r1=1, r2=1, r3=200, stop=2)), (0, dict(data=b"abcd", r0=255, r1=1, r2=1, r3=1, stop=0)),
                      (2, dict(data=b"abc", r0=1, r1=1, r2=1, r3=1, stop=1)), (1, dict(data=b"", r0=1, r1=1, r2=1, r3=1, stop=0)),
                      (0, dict(data=b"ab", r0=1, r1=1, r2=5, r3=5, stop=3))])
def chunk_policy(data: bytes, r0: int, r1: int, r2: int, r3: int, stop: int) -> bool:
    """
    pre: len(data) <= DMAX
    pre: 1 <= r0 <= 255 and 1 <= r1 <= 255 and 1 <= r2 <= 255 and 1 <= r3 <= 255
    pre: 0 <= stop <= NREQ
    post: _
    """
    p = part()
    expect_full = p < 2
    stop_op = NEXT_OK if p % 2 == 0 else FOREIGN
    payload = list(data)
    n = len(payload)
    dev = ChunkDevice([r1, r2, r3] + [255] * 4, stop, stop_op)
    dongle, world = new_dongle(dev)
    out = dongle._send_data_in_chunks(
        command=0x02, operation=OP, next_operations=[NEXT_OK], data=mkbytes(payload), expect_full_data=expect_full,
        initial_bytes=r0, operation_name="sign", data_description="x")
    # --- oracle
    reqs = [r0] + dev.requested
    # every chunk is the next min(requested, remaining) bytes: nothing added, dropped, reordered
    pos = 0
    for i, ch in enumerate(dev.chunks):
        want = payload[pos:pos + reqs[i]]
        if ch != want:
            return False
        pos += len(ch)
    if dev.received != payload[:pos]:
        return False
    ok_expected = stop_op == NEXT_OK and (not expect_full or pos == n)
    if out[0] is not ok_expected:
        return False
    # the response handed back is the device's last answer
    return blist(out[1])[2] == stop_op and len(dev.chunks) == stop + 1


LONG = bytes((i * 7 + (i >> 8) * 13 + 1) & 0xff for i in range(300))


@obligation(tier="quick", parts=3, timeout=300, part_names=["first request symbolic", "second request symbolic", "third request symbolic"],
            bounds="300-byte payload (concrete pattern); one request size symbolic over 1..255 at position 1, 2 or 3 (partition), the "
                   "others 255; device consumes everything",
            examples=[(0, dict(r=255)), (1, dict(r=254)), (2, dict(r=1))])
def chunk_long(r: int) -> bool:
    """
    pre: 1 <= r <= 255
    post: _
    """
    p = part()
    reqs = [255, 255, 255]
    reqs[p] = r

    class Dev(ChunkDevice):
        def handle(self, apdu):
            a = blist(apdu)
            body = a[3:]
            self.chunks.append(body)
            self.received = self.received + body
            i = self.step
            self.step += 1
            if len(self.received) >= len(LONG) or i >= 8:
                return resp([0x80, 0x02, NEXT_OK, 1])     # (i >= 8: give up on a host that stopped delivering)
            rq = self.reqs[i] if i < len(self.reqs) else 255
            self.requested.append(rq)
            return resp([0x80, 0x02, OP, rq])
    dev = Dev(reqs[1:], 10 ** 9, NEXT_OK)
    dongle, world = new_dongle(dev)
    out = dongle._send_data_in_chunks(
        command=0x02, operation=OP, next_operations=[NEXT_OK], data=mkbytes(list(LONG), realize_slices=True), expect_full_data=True,
        initial_bytes=reqs[0], operation_name="sign", data_description="x")
    rq = [reqs[0]] + dev.requested
    pos = 0
    for i, ch in enumerate(dev.chunks):
        n = len(ch)
        # exactly min(requested, remaining) bytes, and they are the next ones
        if n != min(rq[i], len(LONG) - pos) or ch != list(LONG[pos:pos + n]):
            return False
        pos += n
    return out[0] is True and dev.received == list(LONG)


# ------------------------------------------------------------------ layout

WS_LENS = [1, 0xfc, 0xfd, 300]          # varint boundary 0xfc / 0xfd
TXS = [TX_SIGNED_1IN, TX_2IN, TX_UNSIGNED_1IN,
       mk_tx([(pat(32, 9), 1, b"\x00" + b"\x4c\x03abc" + push(REDEEM), 5)], [])]   # PUSHDATA1 in a non-final op, no outputs
PROOFS = [PROOF, [pat(1, 1)], [pat(255, 2), pat(2, 3), pat(31, 4)]]
PROOF_MAX = [bytes([i + 1]) for i in range(255)]      # the largest node count the 1-byte counter can announce
CHUNKS = [255, 1, 3, 80]
SELECT = [(i % 6, i % 4, i % 3) for i in range(12)]
LAYOUT_PARTS = [(m, t, c) for m in ("legacy", "segwit") for t in range(len(TXS)) for c in (0, 2, 3)] + \
    [("segwit", 0, 1), ("legacy", 1, 1)]


def unsigned_oracle(tx_index):
    """The transaction the device must end up with: every input script reduced to empty pushes followed by its
    original last operation (written by hand for the catalogue transactions)."""
    if tx_index == 0:
        return TX_UNSIGNED_1IN
    if tx_index == 1:
        return mk_tx([(pat(32, 1), 0, b"\x00\x00" + push(REDEEM), 0xffffffff),
                      (pat(32, 4), 7, b"\x00\x00" + push(REDEEM), 0xfffffffe)], [(1000, pat(25, 2))], version=2, locktime=17)
    if tx_index == 2:
        return TX_UNSIGNED_1IN
    return mk_tx([(pat(32, 9), 1, b"\x00\x00" + push(REDEEM), 5)], [])


@obligation(tier="quick", parts=len(LAYOUT_PARTS), timeout=200,
            part_names=lambda i: "%s/tx%d/chunk%d" % (LAYOUT_PARTS[i][0], LAYOUT_PARTS[i][1], CHUNKS[LAYOUT_PARTS[i][2]]),
            bounds="input index symbolic over 0..2^32-1, outpoint value symbolic over 1..2^64-1, one symbolic selector 0..11 choosing the key path (6 documented "
                   "paths), the witness script length ({1, 0xfc, 0xfd, 300}) and the proof shape (3); sighash mode x "
                   "transaction (4 catalogue txs) x device chunk policy {255, 3, 80, (1)} are partitions",
            examples=[(0, dict(inp=0, ov=1, c=0)), (13, dict(inp=0xffffffff, ov=2 ** 64 - 1, c=5)),
                      (24, dict(inp=7, ov=5, c=2)), (12, dict(inp=1, ov=258, c=7))])
def layout(inp: int, ov: int, c: int) -> bool:
    """
    pre: 0 <= inp <= 0xffffffff
    pre: 1 <= ov <= 0xffffffffffffffff
    pre: 0 <= c <= 11
    post: _
    """
    mode, ti, ci = LAYOUT_PARTS[part()]
    pi, wi, pri = SELECT[c]      # one selector: every path, every witness-script length, every proof shape
                                 # (a table, not c % n: modulo constraints make every later query slow)
    ws = pat(WS_LENS[wi], 50 + wi)
    proof = PROOFS[pri]
    req = {"command": "sign", "version": 5, "keyId": KEY_PATHS[pi],
           "auth": {"receipt": RECEIPT.hex(), "receipt_merkle_proof": [n.hex() for n in proof]},
           "message": {"tx": TXS[ti].hex(), "input": inp, "sighashComputationMode": mode}}
    if mode == "segwit":
        req["message"]["witnessScript"] = ws.hex()
        req["message"]["outpointValue"] = ov
    d = SimDevice()
    d.chunk = CHUNKS[ci]
    proto, dongle, world = make_stack(d, bytes_model=True)
    out = handle(proto, req)
    if out[0] != "reply" or out[1].get("errorcode") != 0 or world.violations:
        return False
    v = d.parsed_sign()
    utx = list(unsigned_oracle(ti))
    if v["path"] != list(path_bytes(KEY_PATHS[pi])) or v["input_bytes"] != list(inp.to_bytes(4, "little")):
        return False
    if v["announced_total"] != 7 + len(utx) or v["tx"] != utx:
        return False
    if mode == "legacy":
        if v["mode"] != 0 or v["edl"] != 0 or v["extradata"] != []:
            return False
    else:
        ed = v["extradata"]
        vi = list(varint(len(ws)))
        if v["mode"] != 1 or v["edl"] != len(vi) + len(ws) + 8:
            return False
        if ed[:len(vi)] != vi or ed[len(vi):len(vi) + len(ws)] != list(ws):
            return False
        # outpoint value: 8 bytes little-endian (compared byte-wise: z3 is slow on a 64-bit sum of products)
        if ed[len(vi) + len(ws):] != list(ov.to_bytes(8, "little")) or len(ed) != len(vi) + len(ws) + 8:
            return False
    if v["receipt"] != list(RECEIPT):
        return False
    if v.get("proof_count") != len(proof) or v["nodes"] != [list(n) for n in proof]:
        return False
    # nothing after the announced data, chunks never larger than requested (checked by the device), signature relayed
    want = der_oracle(d.signature)
    return out[1]["signature"]["r"] == hexof(want[0]) and out[1]["signature"]["s"] == hexof(want[1])


# ------------------------------------------------------------------ success iff everything consumed

class EarlyDevice(SimDevice):
    """Conforming, except that it leaves part `stop_op` after `stop_after` bytes (if fewer than announced) and
    goes on to the next operation (or reports SUCCESS for the last part)."""
    stop_op = None
    stop_after = 0

    def handle_sign(self, data):
        op = data[0]
        if op == self.stop_op and self.sign is not None and self.sign.get("expect") == op:
            s = self.sign
            body = data[1:]
            got = s["parts"][op] + body
            if len(got) >= self.stop_after:
                s["parts"][op] = got
                s["chunks"][op].append(len(body))
                self.early = True
                nxt = {2: 4, 4: 8, 8: 0x81}[op]
                if nxt == 0x81:
                    s["done"] = True
                    return resp([0x80, 0x02, 0x81] + list(self.signature))
                s["expect"] = nxt
                s["requested"] = self.next_request()
                return resp([0x80, 0x02, nxt, s["requested"]])
        return SimDevice.handle_sign(self, data)

    early = False


@obligation(tier="quick", parts=6, timeout=200,
            part_names=["legacy/stop in tx", "legacy/stop in receipt", "legacy/stop in proof", "segwit/stop in tx+extradata",
                        "segwit/stop in receipt", "segwit/stop in proof"],
            bounds="the device leaves one part (partition) after a symbolic number of bytes 1..400 - before, exactly at, or (no effect) "
                   "after the end of that part - and carries on / reports success; chunk size symbolic among {255, 16, 7}",
            examples=[(0, dict(after=10, ci=0)), (1, dict(after=3, ci=1)), (2, dict(after=400, ci=2)), (5, dict(after=100, ci=1)),
                      (3, dict(after=260, ci=0))])
def early_stop(after: int, ci: int) -> bool:
    """
    pre: 1 <= after <= 400
    pre: 0 <= ci <= 2
    post: _
    """
    p = part()
    req = valid_request("sign", 0 if p < 3 else 2)
    d = EarlyDevice()
    d.chunk = [255, 16, 7][ci]
    d.stop_op = [2, 4, 8][p % 3]
    d.stop_after = after
    proto, dongle, world = make_stack(d)
    out = handle(proto, req)
    if out[0] != "reply":
        return False
    # how long is each part really?
    utx = TX_UNSIGNED_1IN
    tx_total = 7 + len(utx) + (0 if p < 3 else len(varint(71)) + 71 + 8)
    totals = {2: tx_total, 4: len(RECEIPT), 8: 1 + sum(1 + len(n) for n in PROOF)}
    consumed_all = all(len(d.sign["parts"][op]) == totals[op] for op in (2, 4, 8))
    success = out[1].get("errorcode") == 0
    if success != (consumed_all and d.sign.get("done") is True):
        return False
    if success:
        want = der_oracle(d.signature)
        return out[1]["signature"]["r"] == hexof(want[0]) and out[1]["signature"]["s"] == hexof(want[1])
    return "signature" not in out[1]


# ------------------------------------------------------------------ unauthorized (hash) signing, both protocols

HASHES = [pat(32, 1).hex(), "00" * 32, "ff" * 32, pat(32, 200).hex().upper()]


@obligation(tier="quick", parts=2, timeout=200, part_names=["v5", "v1"],
            bounds="key path (6) and hash (4 catalogue values) selected by the signature length, DER signature: symbolic byte string of <= 9 (T: 12) "
                   "bytes (valid, 0x31 quirk, trailing rubbish, malformed)",
            examples=[(0, dict(sig=bytes([0x30, 6, 2, 1, 5, 2, 1, 7]))), (1, dict(sig=bytes([0x31, 6, 2, 1, 5, 2, 1, 7, 1]))),
                      (0, dict(sig=b"")), (1, dict(sig=bytes([0x30, 9, 2])))])
def unauthorized(sig: bytes) -> bool:
    """
    pre: len(sig) <= SIGMAX
    post: _
    """
    v1 = part() == 1
    pi, hi, _ = SELECT[len(sig) % 12] if len(sig) < 12 else SELECT[0]   # path / hash follow the signature length
    d = SimDevice()
    d.signature = list(sig)
    proto, dongle, world = make_stack(d, v1=v1)
    req = {"command": "sign", "version": 1 if v1 else 5, "keyId": KEY_PATHS[pi]}
    req["message"] = HASHES[hi] if v1 else {"hash": HASHES[hi]}
    out = handle(proto, req)
    if out[0] != "reply":
        return False
    # the device holds exactly the path and the 32-byte hash, in one message
    if world.exchanges != 1 or d.sign is None or d.sign["path"] != list(path_bytes(KEY_PATHS[pi])) \
            or d.sign.get("hash") != list(bytes.fromhex(HASHES[hi])):
        return False
    want = der_oracle(list(sig))
    if want is None:
        return out[1].get("errorcode") != 0 and "signature" not in out[1]
    return out[1].get("errorcode") == 0 and out[1]["signature"]["r"] == hexof(want[0]) \
        and out[1]["signature"]["s"] == hexof(want[1])


SIGMAX = 12 if THOROUGH else 9


@obligation(tier="quick", parts=2, timeout=300, part_names=["legacy", "segwit"],
            bounds="a receipt merkle proof of 255 one-byte nodes (the maximum node count) and one of a single 255-byte node; input index "
                   "symbolic 0..2^32-1; chunk requests 255",
            examples=[(0, dict(inp=3, big=True)), (1, dict(inp=0, big=False))])
def layout_max_proof(inp: int, big: bool) -> bool:
    """
    pre: 0 <= inp <= 0xffffffff
    post: _
    """
    mode = ["legacy", "segwit"][part()]
    proof = PROOF_MAX if big else [pat(255, 9)]
    req = {"command": "sign", "version": 5, "keyId": KEY_PATHS[0],
           "auth": {"receipt": RECEIPT.hex(), "receipt_merkle_proof": [n.hex() for n in proof]},
           "message": {"tx": TXS[0].hex(), "input": inp, "sighashComputationMode": mode}}
    if mode == "segwit":
        req["message"]["witnessScript"] = pat(30, 1).hex()
        req["message"]["outpointValue"] = 77
    d = SimDevice()
    proto, dongle, world = make_stack(d, bytes_model=True)
    out = handle(proto, req)
    if out[0] != "reply" or out[1].get("errorcode") != 0 or world.violations:
        return False
    v = d.parsed_sign()
    return v.get("proof_count") == len(proof) and v["nodes"] == [list(n) for n in proof] \
        and v["input_bytes"] == list(inp.to_bytes(4, "little")) and v["receipt"] == list(RECEIPT)


@obligation(tier="thorough", parts=2, timeout=900, thorough_timeout=1500, part_names=["legacy", "segwit"],
            bounds="the whole authorized exchange with the device's FIRST chunk request of every part symbolic over 1..255 (then 255): "
                   "ties chunking and layout together end to end",
            examples=[(0, dict(r=1)), (1, dict(r=255)), (0, dict(r=100))])
def layout_symbolic_request(r: int) -> bool:
    """
    pre: 1 <= r <= 255
    post: _
    """
    from sim.base import _realize
    r = _realize(r)
    mode = ["legacy", "segwit"][part()]
    req = valid_request("sign", 0 if mode == "legacy" else 2)
    key_path = req["keyId"]

    class Dev(SimDevice):
        """asks for r bytes as the first request of every part, then 255"""
        def handle_sign(self, data):
            first = self.sign is None or self.sign.get("expect") != data[0]
            self.chunk = r if (data[0] == 0x01 or first) else 255
            return SimDevice.handle_sign(self, data)
    d = Dev()
    d.chunk = r
    proto, dongle, world = make_stack(d, bytes_model=True)
    out = handle(proto, req)
    if out[0] != "reply" or out[1].get("errorcode") != 0 or world.violations:
        return False
    v = d.parsed_sign()
    utx = list(TX_UNSIGNED_1IN)
    return v["tx"] == utx and v["receipt"] == list(RECEIPT) and v["nodes"] == [list(n) for n in PROOF] \
        and v["path"] == list(path_bytes(key_path))
