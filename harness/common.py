"""Shared plumbing for all obligations (harness side).

An *obligation* is a plain Python function with typed parameters (the symbolic
variables), PEP316 `pre:` lines (bounds only) and `post: _` (must return True).
It builds a world, runs the REAL code of /repo/middleware and compares with an
independent oracle.  CrossHair executes it symbolically; z3 decides every path.
"""
import json
import os
import sys

VERIF = os.path.dirname(os.path.dirname(os.path.abspath(__file__)))
REPO = os.environ.get("VERIF_REPO", "/repo")
MIDDLEWARE = os.path.join(REPO, "middleware")

for p in (MIDDLEWARE, os.path.join(VERIF, "shim"), VERIF):
    if p in sys.path:
        sys.path.remove(p)
# shim first (it provides bitcoin.core only: see shim/bitcoin/__init__.py), then the repo
sys.path.insert(0, VERIF)
sys.path.insert(0, MIDDLEWARE)
sys.path.insert(0, os.path.join(VERIF, "shim"))

REPLAY = os.environ.get("VERIF_REPLAY") == "1"      # concrete replay: formatting stubs removed
NO_CARVE = os.environ.get("VERIF_NO_CARVE") == "1"  # known-finding witness replay


def part():
    """Concrete partition index of this run (selected by the scheduler)."""
    return int(os.environ.get("VERIF_PART", "0"))


_KF = None


def _known_findings():
    global _KF
    if _KF is None:
        try:
            with open(os.path.join(VERIF, "known_findings.json")) as f:
                _KF = json.load(f)["findings"]
        except Exception:
            _KF = []
    return _KF


def known(fid, cond):
    """`cond` if finding `fid` is listed as OPEN in known_findings.json, else False.

    Used as `return ok or known("C03-x", <input class predicate>)`: the listed input
    class is carved out of the post-condition, everything else is still decided.
    A `fixed` entry carves nothing out."""
    if NO_CARVE:
        return False
    still_open = os.environ.get("VERIF_OPEN_FINDINGS")
    if still_open is not None and fid not in still_open.split(","):
        return False  # witness no longer fails on this tree: carve nothing out
    for f in _known_findings():
        if f.get("id") == fid and f.get("status") == "open":
            return cond
    return False


class Obligation:
    def __init__(self, fn, tier, parts, timeout, bounds, examples, part_names, thorough_timeout):
        self.fn = fn
        self.name = fn.__name__
        self.tier = tier
        self.parts = parts
        self.timeout = timeout
        self.thorough_timeout = thorough_timeout
        self.bounds = bounds
        self.examples = examples
        self.part_names = part_names


def obligation(tier="quick", parts=1, timeout=60, bounds="", examples=None, part_names=None,
               thorough_timeout=None):
    """Register the decorated function as an obligation of its module.

    tier: 'quick' (run in both tiers) or 'thorough' (thorough tier only).
    parts: number of partitions (VERIF_PART = 0..parts-1), or a callable(tier)->int.
    examples: list of (part, kwargs) executed concretely before the solver is started.
    """
    def deco(fn):
        mod = sys.modules[fn.__module__]
        reg = mod.__dict__.setdefault("OBLIGATIONS", [])
        reg.append(Obligation(fn, tier, parts, timeout, bounds, examples or [], part_names,
                              thorough_timeout or timeout * 5))
        return fn
    return deco


class NullLogger:
    """Formatting stub: loggers get empty bodies (formatting is not the subject)."""
    def debug(self, *a, **k): pass
    info = warning = error = critical = fatal = exception = log = debug
    def isEnabledFor(self, *a): return False
    def setLevel(self, *a): pass


NULL_LOGGER = NullLogger()


def is_control_flow(exc):
    """True for CrossHair's path-steering exceptions (BaseException subclasses)."""
    try:
        from crosshair.util import ControlFlowException
    except Exception:
        return False
    return isinstance(exc, ControlFlowException)


def reraise_control_flow(exc):
    """The code under test catches BaseException in places; an abandoned path must stay
    abandoned.  Walk the context chain and re-raise a CrossHair control-flow exception."""
    seen = 0
    e = exc
    while e is not None and seen < 10:
        if is_control_flow(e):
            raise e
        e = e.__context__ if e.__context__ is not None else e.__cause__
        seen += 1


NOTES = []


def note(*a):
    """Debug breadcrumbs shown by the runner next to a counterexample (never affects verdicts)."""
    try:
        NOTES.append(" ".join(str(x) for x in a)[:800])
        del NOTES[:-6]
    except BaseException:
        pass


def _warm_up():
    """First use of some C extensions builds cffi types lazily; under CrossHair's tracer that
    initialisation fails (patched hash()).  Use them once before any symbolic execution."""
    try:
        from comm.utils import keccak_256
        keccak_256(b"warm-up")
    except Exception:
        pass
    try:
        import hashlib
        hashlib.sha256(b"warm-up").digest()
    except Exception:
        pass


_warm_up()
