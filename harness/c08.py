"""C08 Verify commands vouch only for the operator's keys and a well-formed message.

Real admin.verify_ledger_attestation.do_verify_attestation, admin.verify_sgx_attestation.do_verify_attestation,
admin.attestation_utils.PowHsmAttestationMessage / load_pubkeys / compute_pubkeys_hash / compute_pubkeys_output.
Assume-guarantee: certificate loading + chain validation (decided by C06 / C07 / C16) is replaced by a summary
that returns ANY result map those obligations allow (targets present or not, valid or not, with the signed
message / tweak the harness chose).  secp256k1 keys are tokens; hashlib is real (concrete data); files in memory.
Oracle: finishes normally <=> the conjunction of the statement; printed values = slices at the documented offsets
of the signed messages.
"""
import hashlib

from harness.common import obligation, part, reraise_control_flow, note
from harness.catalog import pat

import admin.attestation_utils as au
import admin.verify_ledger_attestation as vl
import admin.verify_sgx_attestation as vs
from admin.misc import AdminError

import os
DMAX = 8 if os.environ.get("VERIF_TIER") == "thorough" else 3      # message length deviations -DMAX..+DMAX
UI_PATH = "m/44'/0'/0'/0/0"
PATHS = [UI_PATH, "m/44'/1'/0'/0/0", "m/44'/137'/0'/0/0", "m/44'/137'/1'/0/0", "m/44'/1'/1'/0/0", "m/44'/1'/2'/0/0"]


class TokPub:
    def __init__(self, raw):
        self.raw = bytes(raw)

    def serialize(self, compressed=True):
        return (b"\x02" + self.raw[1:33]) if compressed else self.raw


class _Ec:
    def __init__(self):
        self.bad = set()

    def PublicKey(self, b, raw=False):
        b = bytes(b)
        if b in self.bad or len(b) != 65:
            raise Exception("bad key")
        return TokPub(b)


def key_of(i):
    return b"\x04" + pat(64, 100 + i)


class Options:
    attestation_certificate_file_path = "/x/att.json"
    pubkeys_file_path = "/x/keys.json"
    root_authority = None


class _Cert:
    def __init__(self, result):
        self.result = result
        self.roots = []

    def validate_and_get_values(self, root):
        self.roots.append(root)
        return self.result


class Env:
    """Stubs inside the verify modules; collects what the command prints."""
    def __init__(self, pubkeys_doc, result, root_ok=True):
        self.pubkeys_doc = pubkeys_doc
        self.cert = _Cert(result)
        self.printed = []
        self.root_ok = root_ok
        self.ec = _Ec()

    def __enter__(self):
        env = self

        class Json:
            JSONDecodeError = ValueError

            @staticmethod
            def loads(text):
                return env.pubkeys_doc

        class F:
            def __enter__(self):
                return self

            def __exit__(self, *a):
                return False

            def read(self):
                return "<text>"

        class CertStub:
            @staticmethod
            def from_jsonfile(path):
                return env.cert

        class RootStub:
            def __init__(self, hexkey):
                if not env.root_ok:
                    raise ValueError("Error parsing certificate root public key")
                self.hexkey = hexkey

            def __repr__(self):
                return "root"

        class SgxRoot:
            def is_valid(self, other):
                return env.root_ok

        self.saved = [(au, "json", au.json), (au, "ec", au.ec), (vl, "HSMCertificate", vl.HSMCertificate),
                      (vl, "HSMCertificateRoot", vl.HSMCertificateRoot), (vl, "info", vl.info), (vl, "head", vl.head),
                      (vs, "HSMCertificate", vs.HSMCertificate), (vs, "info", vs.info), (vs, "head", vs.head),
                      (vs, "get_root_of_trust", vs.get_root_of_trust)]
        au.json = Json
        au.open = lambda p, mode="r": F()
        au.ec = self.ec
        vl.HSMCertificate = CertStub
        vl.HSMCertificateRoot = RootStub
        vs.HSMCertificate = CertStub
        vs.get_root_of_trust = lambda path: SgxRoot()
        for m in (vl, vs):
            m.info = lambda s, nl=True: env.printed.append(s)
            m.head = lambda ss, fill="*", nl=True: env.printed.extend([ss] if type(ss) == str else list(ss))
        return self

    def __exit__(self, *a):
        for mod, name, val in self.saved:
            setattr(mod, name, val)
        if "open" in au.__dict__:
            del au.open
        return False


def run(fn, root=None):
    try:
        o = Options()
        o.root_authority = root
        fn(o)
        return "ok"
    except AdminError:
        return "admin-error"
    except Exception as e:
        reraise_control_flow(e)
        import traceback
        note("raised", "".join(traceback.format_exception(e))[-500:])
        return "error:" + type(e).__name__


def pubkeys_doc(variant):
    """variant 0: the operator's six keys; 1: another key for one path; 2: UI path missing; 3: a non-hex key; 4: empty; 5: one extra path;
    6 / 7: one extra key under an alias spelling of one of the six paths"""
    d = {p: key_of(i).hex() for i, p in enumerate(PATHS)}
    if variant == 1:
        d[PATHS[3]] = key_of(9).hex()
    elif variant == 2:
        del d[UI_PATH]
    elif variant == 3:
        d[PATHS[2]] = "zz"
    elif variant == 4:
        d = {}
    elif variant == 5:
        d["m/44'/0'/0'/0/1"] = key_of(8).hex()
    elif variant in (6, 7):
        # a seventh, foreign key under another SPELLING of one of the six paths (zero-padded index / blanks), listed before
        # (6) or after (7) the real entry: seven keys are not the operator's six
        alias = {"m/44'/01'/0'/0/0" if variant == 6 else " m/44'/1'/0'/0/0 ": key_of(9).hex()}
        d = {**alias, **d} if variant == 6 else {**d, **alias}
    return d


def operator_hash():
    """SHA-256 over the operator's uncompressed keys in (lexicographic) path order."""
    h = hashlib.sha256()
    for p in sorted(PATHS):
        h.update(key_of(PATHS.index(p)))
    return h.digest()


UI_HEADERS = [b"HSM:UI:5.4", b"HSM:UI:2.0", b"HSM:UI:6.0", b"HSM:SIGNER:5.4", b"hsm:ui:5.4", b"XHSM:UI:5.4", b"HSM:UI:5."]
SIGNER_HEADERS = [b"POWHSM:5.4::", b"POWHSM:5.9::", b"POWHSM:4.0::", b"POWHSM:5.4:", b"HSM:SIGNER:5.4", b"HSM:UI:5.4", b"XPOWHSM:5.4::",
                  # longer than the documented 12 bytes: with delta -1 / -2 the TOTAL length is again the documented one
                  b"POWHSM:5.10::", b"POWHSM:5.123::"]
NSH = len(SIGNER_HEADERS)


UD_DIGIT = b"7" + pat(31, 1)          # a UD value whose first byte is an ASCII digit: nothing separates it from the header


def ui_message(header, key, ud=None, shash=None, it=b"\x01\x02"):
    return header + (ud or UD_DIGIT) + key + (shash or pat(32, 2)) + it


def powhsm_body(keys_hash, delta=0, front=False):
    """The documented 115-byte body, made `delta` bytes longer / shorter at its end - or at its front (then every field sits
    |delta| bytes early / late relative to the end of the header)."""
    body = b"led" + pat(32, 3) + keys_hash + pat(32, 4) + pat(8, 5) + bytes([0, 0, 0, 0, 0x65, 0, 0, 1])
    if front:
        return body[-delta:] if delta < 0 else bytes([0x77]) * delta + body
    if delta < 0:
        return body[:delta]
    return body + bytes([0x77]) * delta


ROOT_OPTS = [None, "04" + "ab" * 64, "", "zz", "0x04" + "ab" * 64]   # not given | a hex key | empty | not hex | prefixed


@obligation(tier="quick", parts=2 + NSH, timeout=240,
            part_names=lambda p: ["symbolic: UI target", "symbolic: public keys / root"][p] if p < 2 else
            "symbolic: signer target, header %s" % SIGNER_HEADERS[p - 2].decode(),
            bounds="Ledger verify: one input group symbolic per partition. UI: present / valid / header among 7 / attested key equals the "
                   "operator's or not. Signer: present / valid / header among 9 (current, legacy, foreign, version variants, two over-long ones) / message "
                   "length = documented length + delta, delta in -3..+3 (T: -8..+8), bytes added / removed at the end or at the front of the body (symbolic) / reported keys hash equals or not. Keys file among 8 variants, "
                   "root authority parses or not; root authority option not given / a hex key / empty / not hex / 0x-prefixed (symbolic)",
            examples=[(0, dict(present=True, valid=True, hi=0, same=True, delta=0, var=0, root_ok=True)),
                      (6, dict(present=True, valid=True, hi=4, same=True, delta=0, var=0, root_ok=True)),
                      (2, dict(present=True, valid=True, hi=0, same=True, delta=1, var=0, root_ok=True)),
                      (1, dict(present=True, valid=True, hi=0, same=True, delta=0, var=1, root_ok=True)),
                      (0, dict(present=True, valid=True, hi=0, same=False, delta=0, var=0, root_ok=True)),
                      (6, dict(present=True, valid=True, hi=4, same=True, delta=-1, var=0, root_ok=True)),
                      (2, dict(present=True, valid=True, hi=0, same=True, delta=0, var=0, root_ok=True))])
def ledger(present: bool, valid: bool, hi: int, same: bool, delta: int, var: int, root_ok: bool, front: bool = False,
           ropt: int = 0) -> bool:
    """
    pre: 0 <= hi <= 6
    pre: -DMAX <= delta <= DMAX
    pre: 0 <= var <= 7
    pre: 0 <= ropt <= 4
    post: _
    """
    focus = [0, 2][part()] if part() < 2 else 1
    if focus == 1:
        hi = part() - 2            # the signer header is a partition
    ui = dict(present=True, valid=True, hi=0, same=True)
    sg = dict(present=True, valid=True, hi=0, same=True, delta=0)
    if focus == 0:
        ui = dict(present=present, valid=valid, hi=hi, same=same)
        var, root_ok = 0, True
    elif focus == 1:
        sg = dict(present=present, valid=valid, hi=hi, same=same, delta=delta)
        var, root_ok = 0, True
    else:
        front = False
    if focus != 2:
        ropt = 0
    root_given = None
    for k in range(len(ROOT_OPTS)):
        if ropt == k:
            root_given = ROOT_OPTS[k]
    ui_key = (b"\x02" + key_of(0)[1:33]) if ui["same"] else (b"\x02" + pat(32, 66))
    ui_msg = ui_message(UI_HEADERS[ui["hi"]], ui_key)
    ui_tweak = pat(32, 7)
    khash = operator_hash() if sg["same"] else pat(32, 67)
    sh = SIGNER_HEADERS[sg["hi"]]
    if sh.startswith(b"HSM:SIGNER"):
        # legacy format: header | keys hash
        base = khash
        sg_msg = sh + (base[:sg["delta"]] if sg["delta"] < 0 else base + bytes([0x77]) * sg["delta"])
    else:
        sg_msg = sh + powhsm_body(khash, sg["delta"], front)
    sg_tweak = pat(32, 8)
    result = {}
    if ui["present"]:
        result["ui"] = (True, ui_msg.hex(), ui_tweak.hex()) if ui["valid"] else (False, "device")
    if sg["present"]:
        result["signer"] = (True, sg_msg.hex(), sg_tweak.hex()) if sg["valid"] else (False, "attestation")
    with Env(pubkeys_doc(var), result, root_ok) as env:
        res = run(vl.do_verify_attestation, root_given)
        printed = "\n".join(str(x) for x in env.printed)
        roots = env.cert.roots
    ui_ok = ui["present"] and ui["valid"] and ui["hi"] in (0, 1) and ui["same"]
    sg_hdr_ok = sg["hi"] in (0, 1, 4)     # POWHSM:5.x:: and the legacy HSM:SIGNER:x.y
    sg_ok = sg["present"] and sg["valid"] and sg_hdr_ok and sg["delta"] == 0 and sg["same"]
    keys_ok = var == 0
    # the root authority: the built-in one when none is given, the given one when it is a hex string, an error otherwise
    root_opt_ok = ropt in (0, 1)
    want_ok = root_ok and root_opt_ok and keys_ok and ui_ok and sg_ok
    if not root_opt_ok and roots:
        return False                       # a certificate was validated although the root authority given is no hex string
    if roots and getattr(roots[0], "hexkey", None) != (vl.DEFAULT_ROOT_AUTHORITY if ropt == 0 else ROOT_OPTS[1]):
        return False                       # validated against another root than the operator chose
    # a different key set (variant 1 / 5) changes the hash the message must carry: the operator's hash no longer matches
    if res.startswith("error:"):
        # an uncontrolled exception is still "ends in an error", but never for an input that should verify
        return not want_ok
    if (res == "ok") != want_ok:
        return False
    if res != "ok":
        return True
    # the printed values are those at the documented offsets of the signed messages
    L = len(UI_HEADERS[ui["hi"]])
    wanted = ["UD value: " + ui_msg[L:L + 32].hex(), "Derived public key (%s): %s" % (UI_PATH, ui_msg[L + 32:L + 65].hex()),
              "Authorized signer hash: " + ui_msg[L + 65:L + 97].hex(), "Authorized signer iteration: 258",
              "Installed UI hash: " + ui_tweak.hex(), "Installed Signer hash: " + sg_tweak.hex(), "Hash: " + operator_hash().hex()]
    if not sh.startswith(b"HSM:SIGNER"):
        body = sg_msg[len(sh):]
        wanted += ["Platform: led", "UD value: " + body[3:35].hex(), "Best block: " + body[67:99].hex(),
                   "Last transaction signed: " + body[99:107].hex(), "Timestamp: %d" % int.from_bytes(body[107:115], "big")]
    return all(w in printed for w in wanted) and len(roots) >= 1


@obligation(tier="quick", parts=NSH + 1, timeout=200,
            part_names=lambda p: "symbolic: public keys / root" if p == NSH else "symbolic: quote target, header %s" % SIGNER_HEADERS[p].decode(),
            bounds="SGX verify: quote target present / valid / header among 9 / length delta -3..+3 (T: -8..+8) / keys hash equals or not; keys file among "
                   "8 variants; root of trust validates itself or not",
            examples=[(0, dict(present=True, valid=True, hi=0, same=True, delta=0, var=0, root_ok=True)),
                      (0, dict(present=True, valid=True, hi=0, same=True, delta=2, var=0, root_ok=True)),
                      (NSH, dict(present=True, valid=True, hi=0, same=True, delta=0, var=0, root_ok=False)),
                      (7, dict(present=True, valid=True, hi=0, same=True, delta=-1, var=0, root_ok=True, front=True)),
                      (4, dict(present=True, valid=True, hi=4, same=True, delta=0, var=0, root_ok=True))])
def sgx(present: bool, valid: bool, hi: int, same: bool, delta: int, var: int, root_ok: bool, front: bool = False) -> bool:
    """
    pre: 0 <= hi <= 6
    pre: -DMAX <= delta <= DMAX
    pre: 0 <= var <= 7
    post: _
    """
    if part() < NSH:
        var, root_ok = 0, True
        hi = part()
    else:
        present, valid, hi, same, delta, front = True, True, 0, True, 0, False
    khash = operator_hash() if same else pat(32, 67)
    sh = SIGNER_HEADERS[hi]
    msg = sh + powhsm_body(khash, delta, front).replace(b"led", b"sgx", 1)

    class Quote:
        class report_body:
            mrenclave = pat(32, 11)
            mrsigner = pat(32, 12)
    result = {}
    if present:
        result["quote"] = (True, {"sgx_quote": Quote, "message": msg.hex()}, None) if valid else (False, "attestation")
    with Env(pubkeys_doc(var), result, root_ok) as env:
        res = run(vs.do_verify_attestation)
        printed = "\n".join(str(x) for x in env.printed)
    want_ok = root_ok and var == 0 and present and valid and hi in (0, 1) and delta == 0 and same
    if res.startswith("error:"):
        return not want_ok
    if (res == "ok") != want_ok:
        return False
    if res != "ok":
        return True
    body = msg[len(sh):]
    wanted = ["Hash: " + operator_hash().hex(), "Installed powHSM MRENCLAVE: " + pat(32, 11).hex(),
              "Installed powHSM MRSIGNER: " + pat(32, 12).hex(), "Platform: sgx", "UD value: " + body[3:35].hex(),
              "Best block: " + body[67:99].hex(), "Last transaction signed: " + body[99:107].hex(),
              "Timestamp: %d" % int.from_bytes(body[107:115], "big")]
    return all(w in printed for w in wanted)


ORDERS = [[0, 1, 2, 3, 4, 5], [5, 4, 3, 2, 1, 0], [2, 0, 1, 5, 3, 4]]
EXTRA_SETS = [["m/44'/2'/0'/0/0", "m/44'/10'/0'/0/0"], ["m/44'/0'/0'/0/9", "m/44'/0'/0'/0/10"], ["m/44'/1'/0'/0/0"]]


@obligation(tier="quick", parts=2, timeout=120, part_names=["documented paths in any file order", "other path sets (numeric vs lexicographic order)"],
            bounds="compute_pubkeys_hash: the six documented paths given in 3 file orders, and 3 other path sets whose numeric and "
                   "lexicographic orders differ (symbolic selection)",
            examples=[(0, dict(i=0)), (0, dict(i=1)), (1, dict(i=0)), (1, dict(i=1))])
def keys_hash(i: int) -> bool:
    """
    pre: 0 <= i <= 2
    post: _
    """
    if part() == 0:
        order = ORDERS[i]
        doc = {}
        for k in order:
            doc[PATHS[k]] = key_of(k).hex()
        names = PATHS
        keyidx = {p: PATHS.index(p) for p in PATHS}
    else:
        names = EXTRA_SETS[i]
        doc = {p: key_of(20 + j).hex() for j, p in enumerate(names)}
        keyidx = {p: 20 + j for j, p in enumerate(names)}
    with Env(doc, {}) as env:
        m = au.load_pubkeys("/x/keys.json")
        got = au.compute_pubkeys_hash(m)
    h = hashlib.sha256()
    for p in sorted(names):          # lexicographic path order
        h.update(key_of(keyidx[p]))
    return got == h.digest()
