"""C12 Concurrent clients never interleave on the device.

The REAL comm.server.TCPServer.run / _TCPServerRequestHandler / _RequestHandler and the REAL standard-library
socketserver classes they instantiate (accept loop, process_request, StreamRequestHandler set-up and tear-down)
run over a simulated socket layer: `socket` and `_ServerSelector` inside the socketserver module are replaced
by an in-memory listening socket, per-client connection sockets and a selector.  N clients (2 or 3) are
"simultaneously connected": each has sent its request line and waits for the answer.

THE SCHEDULE IS A VECTOR OF SOLVER VARIABLES.  Every point where the operating system could run something else
is a decision point: the selector's select() (which waiting connection does accept() return next / does a
request-handling thread run instead), every device exchange and every socket read / write (may another
runnable thread go first).  Threads the code under test starts are REAL threads, but they are only ever let
run one at a time, from one decision point to the next, by the harness' scheduler; the scheduler decides in
the main thread, from the next schedule variable `c<j>` (case split on a symbolic int), so CrossHair / z3
explore the tree of schedules and a counterexample is a concrete schedule that replays deterministically.

Oracle (linearisability with contiguous device blocks): there is an order of the N requests such that
the device's APDU log is exactly the concatenation of the APDU sequences of these requests served alone one
after the other on a fresh manager, AND every client's socket received exactly the reply of its own request
in that sequential run (the replies depend on the order when a request changes the device state).
"""
import io
import itertools
import os
import threading

from harness.common import obligation, part, reraise_control_flow, note, NULL_LOGGER
from harness.world import make_stack
from harness.catalog import valid_request
from sim.ledger import SimDevice

import json as real_json
import socket as real_socket
import selectors as real_selectors
import socketserver
import comm.server as server

SETTLE_SPINS = 2500     # x 2 ms: upper bound for one settle


class _Abort(BaseException):
    """Raised inside a request-handling thread when the harness tears the run down."""


try:
    from crosshair.util import IgnoreAttempt as _Ignore
except Exception:      # pragma: no cover
    _Ignore = BaseException


class Inconclusive(_Ignore):
    """The run cannot be judged (e.g. a forking server): under CrossHair the path is left unconfirmed (-> inconclusive),
    in a concrete run it surfaces as a harness error; never a verdict."""


_BASELINE = set(t.ident for t in threading.enumerate())     # threads that exist before any run (none of them is the code's)
_ACTIVE = [None]                                            # the scheduler of the run in progress
_ORIG_COND = (threading.Condition.wait, threading.Condition.notify, threading.Condition.notify_all)
QUIET_SAMPLES = 25       # x 2 ms without the thread's frame moving: it sits in a blocking call


class Sched:
    """Decides, at every decision point, which party runs next.  All decisions are taken in the main thread.

    Parties: threads parked at a decision point (device exchange, socket read / write), threads waiting on a threading.Condition
    (Future.result, Event.wait, Queue.get ... all go through Condition.wait, which is rebound for the run): runnable once
    notified and, if the wait has a time-out, also through the option "its time-out expires" - time is not modelled, a time-out
    may expire at any decision point.  Threads blocked in anything else (a contended lock, a C-level queue) are recognised by
    their frame not moving and are simply not runnable until they show up at a decision point."""
    def __init__(self, choices):
        self.choices = list(choices)
        self.ci = 0
        self.main = threading.get_ident()
        self.cv = threading.Condition()
        self.blocked = {}          # thread ident -> label: parked at a decision point
        self.waiting = {}          # thread ident -> {"cond", "timed", "notified"}: inside a modelled Condition.wait
        self.main_wait = None      # the same record for the main thread
        self.order = {}            # thread ident -> number (order of first appearance: deterministic)
        self.granted = None
        self.active = False
        self.aborting = False
        self.decisions = []        # (options, chosen) - for the replay notes
        self.exhausted = False
        self.max_runnable = 1

    def number(self, tid):
        if tid not in self.order:
            self.order[tid] = len(self.order)
        return self.order[tid]

    # ---- called by any thread at a decision point
    def yield_point(self, label):
        if not self.active:
            return
        tid = threading.get_ident()
        if tid == self.main:
            self.run_others(allow_self=True)
            return
        with self.cv:
            self.number(tid)
            self.blocked[tid] = label
            self.park(tid)

    def park(self, tid):
        """(cv held) wait for the grant."""
        self.cv.notify_all()
        while self.granted != tid and not self.aborting:
            _ORIG_COND[0](self.cv)
        if self.aborting:
            raise _Abort()
        self.granted = None

    # ---- modelled threading.Condition
    def cond_wait(self, cond, timed):
        """The calling thread has released the condition's lock.  Returns True iff it was notified (False: the time-out expired)."""
        tid = threading.get_ident()
        rec = {"cond": cond, "timed": timed, "notified": False}
        if tid != self.main:
            with self.cv:
                self.number(tid)
                self.waiting[tid] = rec
                self.park(tid)
            return rec["notified"]
        self.main_wait = rec
        try:
            while not rec["notified"]:
                pick = self.run_others(allow_self=False, extra=[("timeout", "main")] if timed else [])
                if pick is None:
                    if rec["notified"]:
                        break
                    raise Inconclusive("the serving thread waits without time-out for something no runnable thread can provide")
                if pick == ("timeout", "main"):
                    break
            return rec["notified"]
        finally:
            self.main_wait = None

    def cond_notify(self, cond, n):
        with self.cv:
            recs = [self.waiting[t] for t in sorted(self.waiting, key=lambda t: self.order[t])]
            if self.main_wait is not None:
                recs.append(self.main_wait)
            for rec in recs:
                if n <= 0:
                    break
                if rec["cond"] is cond and not rec["notified"]:
                    rec["notified"] = True
                    n -= 1

    # ---- main thread only
    def others_alive(self):
        # (enumerate() = running threads + threads whose start() is in progress; those have no ident yet)
        return [t for t in threading.enumerate() if t.ident is None or (t.ident not in _BASELINE and t.ident != self.main)]

    def settle(self):
        """Wait until every other thread is parked, waiting on a condition, ended - or sits in some other blocking call."""
        import sys
        quiet = {}
        spins = 0         # (no clock: CrossHair models the time functions as nondeterministic inputs)
        with self.cv:
            while True:
                loose = [t for t in self.others_alive() if t.ident not in self.blocked and t.ident not in self.waiting]
                if not loose:
                    return
                frames = sys._current_frames()
                all_quiet = True
                for t in loose:
                    f = frames.get(t.ident) if t.ident is not None else None
                    if f is None:
                        all_quiet = False          # not running yet (or just ending): wait for it
                        continue
                    key = (id(f), f.f_lasti)
                    prev = quiet.get(t.ident)
                    quiet[t.ident] = (key, prev[1] + 1) if prev is not None and prev[0] == key else (key, 0)
                    if quiet[t.ident][1] < QUIET_SAMPLES:
                        all_quiet = False
                del frames
                spins += 1
                if all_quiet or spins > SETTLE_SPINS:
                    return
                _ORIG_COND[0](self.cv, 0.002)

    def options(self):
        with self.cv:
            out = [("thread", self.order[t]) for t in self.blocked]
            for t, rec in self.waiting.items():
                if rec["notified"]:
                    out.append(("thread", self.order[t]))
                elif rec["timed"]:
                    out.append(("timeout", self.order[t]))
            return sorted(out, key=lambda o: (o[1], o[0]))

    def choose(self, options):
        self.max_runnable = max(self.max_runnable, len(options))
        if len(options) == 1:
            return options[0]
        if self.ci >= len(self.choices):
            self.exhausted = True          # beyond the schedule bound: the first option (recorded in the evidence bounds)
            pick = options[0]
        else:
            c = self.choices[self.ci]
            self.ci += 1
            pick = options[self.split(c, len(options))]
        self.decisions.append(([str(o) for o in options], str(pick)))
        return pick

    @staticmethod
    def split(c, n):
        """Index 0..n-1 selected by the schedule variable c (c >= n-1 selects the last): a case split on a SYMBOLIC int, i.e. one
        CrossHair path per option.  Everything else in a run is concrete and is executed natively; symbolic tracing is
        switched back on just for this comparison."""
        from sim.base import in_crosshair_thread
        if in_crosshair_thread():
            from crosshair.tracers import ResumedTracing
            with ResumedTracing():
                for k in range(n - 1):
                    if c == k:
                        return k
                return n - 1
        for k in range(n - 1):
            if c == k:
                return k
        return n - 1

    def grant(self, tid):
        with self.cv:
            self.blocked.pop(tid, None)
            self.waiting.pop(tid, None)
            self.granted = tid
            self.cv.notify_all()
        self.settle()

    def run_others(self, allow_self, extra=()):
        """Decision loop.  Returns 'self' or one of `extra` when that option is chosen; lets another thread run otherwise.
        None: nothing at all is runnable."""
        while True:
            self.settle()
            if self.main_wait is not None and self.main_wait["notified"]:
                return None
            opts = (["self"] if allow_self else []) + list(extra) + self.options()
            if not opts:
                return None
            pick = self.choose(opts)
            if pick == "self" or pick in extra:
                return pick
            tid = [t for t, n in self.order.items() if n == pick[1]][0]
            self.grant(tid)

    def abort(self):
        with self.cv:
            self.aborting = True
            self.cv.notify_all()
        for t in self.others_alive():
            if t.ident in self.order:
                t.join(0.5)


def _cond_wait(self, timeout=None):
    s = _ACTIVE[0]
    if s is None or not s.active or self is s.cv or s.aborting:
        return _ORIG_COND[0](self, timeout)
    if not self._is_owned():
        raise RuntimeError("cannot wait on un-acquired lock")
    saved = self._release_save()
    try:
        return s.cond_wait(self, timeout is not None)
    finally:
        self._acquire_restore(saved)


def _cond_notify(self, n=1):
    s = _ACTIVE[0]
    if s is not None and s.active and self is not s.cv:
        s.cond_notify(self, n)
    return _ORIG_COND[1](self, n)


def _cond_notify_all(self):
    s = _ACTIVE[0]
    if s is not None and s.active and self is not s.cv:
        s.cond_notify(self, 1 << 30)
    return _ORIG_COND[2](self)


def install_conditions(sched):
    _ACTIVE[0] = sched
    threading.Condition.wait = _cond_wait
    threading.Condition.notify = _cond_notify
    threading.Condition.notify_all = _cond_notify_all


def uninstall_conditions():
    _ACTIVE[0] = None
    threading.Condition.wait, threading.Condition.notify, threading.Condition.notify_all = _ORIG_COND


# ------------------------------------------------------------------ simulated socket layer

class Net:
    """The clients and what they have sent / received."""
    def __init__(self, sched, lines):
        self.sched = sched
        self.lines = list(lines)
        self.waiting = list(range(len(lines)))     # connected, not yet accepted
        self.next_accept = None
        self.received = [b"" for _ in lines]
        self.closed = [False for _ in lines]
        self.server = None


class ConnSocket:
    def __init__(self, net, i):
        self.net = net
        self.i = i
        self.pos = 0

    # reading side (StreamRequestHandler wraps it with makefile('rb'))
    def makefile(self, mode="r", buffering=-1):
        assert "r" in mode
        sock = self

        class Raw(io.RawIOBase):
            def readable(self):
                return True

            def readinto(self, b):
                sock.net.sched.yield_point("recv-%d" % sock.i)
                data = sock.net.lines[sock.i][sock.pos:sock.pos + len(b)]
                b[:len(data)] = data
                sock.pos += len(data)
                return len(data)
        return io.BufferedReader(Raw(), buffer_size=buffering if buffering and buffering > 0 else 8192)

    # writing side (socketserver._SocketWriter)
    def sendall(self, data):
        self.net.sched.yield_point("send-%d" % self.i)
        self.net.received[self.i] += bytes(data)

    def send(self, data):
        self.sendall(data)
        return len(data)

    def shutdown(self, how):
        pass

    def close(self):
        self.net.closed[self.i] = True

    def settimeout(self, t):
        pass

    def setsockopt(self, *a):
        pass

    def fileno(self):
        return 100 + self.i


class ListenSocket:
    def __init__(self, net):
        self.net = net
        self.addr = None

    def setsockopt(self, *a):
        pass

    def bind(self, addr):
        self.addr = addr

    def getsockname(self):
        return self.addr

    def listen(self, n):
        pass

    def fileno(self):
        return 99

    def gettimeout(self):
        return None

    def close(self):
        pass

    def accept(self):
        i = self.net.next_accept
        if i is None:
            raise BlockingIOError("no connection waiting")
        self.net.next_accept = None
        return ConnSocket(self.net, i), ("10.0.0.%d" % (i + 1), 40000 + i)


class SocketModule:
    """`socket` as seen by the socketserver module."""
    def __init__(self, net):
        self._net = net

    def socket(self, family=None, type=None, *a, **k):
        return ListenSocket(self._net)

    def __getattr__(self, name):
        return getattr(real_socket, name)


class OsModule:
    """`os` as seen by the socketserver module: forking servers are beyond this harness."""
    def __getattr__(self, name):
        raise Inconclusive("socketserver used os.%s (forking server?): not modelled" % name)


def selector_class(net, on_register):
    class Selector:
        def __enter__(self):
            return self

        def __exit__(self, *a):
            return False

        def register(self, fileobj, events, data=None):
            net.server = fileobj
            on_register()
            net.sched.active = True

        def select(self, timeout=None):
            s = net.sched
            pick = s.run_others(allow_self=False, extra=[("accept", i) for i in net.waiting])
            if pick is None:
                # every client has been accepted and nothing the server started is runnable any more: stop serving
                net.sched.active = False
                net.server._BaseServer__shutdown_request = True
                return []
            net.waiting.remove(pick[1])
            net.next_accept = pick[1]
            return [(None, real_selectors.EVENT_READ)]
    return Selector


# ------------------------------------------------------------------ requests and the sequential reference

def requests_catalogue():
    sign = valid_request("sign", 0)
    sign2 = valid_request("sign", 1)
    adv = valid_request("advanceBlockchain", 0)
    return [("sign (authorized)", sign), ("blockchainState", valid_request("blockchainState")),
            ("advanceBlockchain", adv), ("signerHeartbeat", valid_request("signerHeartbeat")),
            ("getPubKey", valid_request("getPubKey")), ("sign (hash)", sign2),
            ("advanceBlockchain (2 blocks)", valid_request("advanceBlockchain", 1))]


CATALOGUE = requests_catalogue()
FAULTY = {11, 12}     # indices into SETS served by the device that stops answering at the second block of an advance
PAIRS = [(0, 1), (0, 2), (2, 1), (3, 0), (0, 5), (4, 3)]
TRIPLES = [(0, 1, 2), (3, 0, 4), (0, 5, 2)]
SETS = PAIRS + TRIPLES + [(0, 1, 2, 3), (2, 5, 4, 0)]                    # 2, 3 and 4 clients
SETS = SETS + [(1, 6, 1), (6, 1, 4, 1)]      # (FAULTY) a state query before and after a two-block advance the device abandons half way
if os.environ.get("VERIF_TIER") == "thorough":
    SETS = SETS + [(2, 0, 3), (1, 2, 5), (0, 0, 1), (0, 0, 0, 0), (3, 2, 1, 0), (0, 1, 2, 3, 4)]    # (equal requests too), 5 clients


class _NotingLogger:
    """Swallows the server's log output, keeps what it reports as critical / error for the counterexample notes."""
    def critical(self, msg, *a):
        import traceback
        note("server log (critical)", threading.current_thread().name, str(msg)[:300], [str(x)[:300] for x in a], traceback.format_exc()[-1200:])

    error = critical

    def info(self, *a, **k):
        pass

    debug = warning = info


def line_of(req):
    return real_json.dumps(req).encode() + b"\n"


class StatefulDevice(SimDevice):
    """The simulated signer with a blockchain state that MOVES: every block taken by an advance changes the best block the state
    query reports.  `fail_block` = k makes the device stop answering (time-out) when the metadata of block k of an advance
    arrives - after it has taken the blocks before."""
    def __init__(self, fail_block=None):
        super().__init__()
        self.chunk = 40
        self.fail_block = fail_block
        self.taken = 0

    def _after_block(self, b, cmd, OP_META, OP_PARTIAL, OP_SUCCESS):
        if cmd == 0x10:
            self.taken += 1
            for sel in list(self.hashes.keys()) or [0x01]:
                self.hashes[sel] = [(self.taken * 17 + sel) & 0xff] * 32
        return SimDevice._after_block(self, b, cmd, OP_META, OP_PARTIAL, OP_SUCCESS)

    def handle(self, apdu):
        from sim.base import blist, raise_fault, FAULT_TIMEOUT
        a = blist(apdu)
        if self.fail_block is not None and len(a) > 2 and a[1] == 0x10 and a[2] == 0x03 and self.block_op is not None \
                and len(self.block_op["blocks"]) == self.fail_block:
            raise_fault(FAULT_TIMEOUT)
        return SimDevice.handle(self, apdu)


def device(faulty=False):
    from sim.ledger import SimDevice as _S   # noqa: F401
    d = StatefulDevice(fail_block=1 if faulty else None)
    # the state query reads these: give every selector an explicit initial value
    from harness.c13 import STATE_FIELDS
    d.hashes = {sel: [sel & 0xff] * 32 for (_, sel) in STATE_FIELDS}
    return d


# ---- recording what the transport did, and replaying one request's block in isolation

class _Recorder:
    """Wraps sim.base.Transport.exchange for the duration of a run: per world, the outcome (answer or exception) of every exchange."""
    def __enter__(self):
        import sim.base as sb
        self.orig = sb.Transport.exchange
        orig = self.orig

        def exchange(tr, apdu, timeout=20000):
            w = tr.world
            if not hasattr(w, "outcomes"):
                w.outcomes = []
            try:
                r = orig(tr, apdu, timeout)
            except BaseException as e:
                if type(e).__name__ not in ("_Abort",):
                    w.outcomes.append(("raise", e))
                raise
            w.outcomes.append(("ok", r))
            return r
        sb.Transport.exchange = exchange
        return self

    def __exit__(self, *a):
        import sim.base as sb
        sb.Transport.exchange = self.orig
        return False


class _Mismatch(Exception):
    pass


class ReplayDevice:
    """Answers exactly what was recorded, provided it is sent exactly what was recorded."""
    def __init__(self, exchanges):
        self.exchanges = list(exchanges)      # [(apdu bytes, outcome)]
        self.bad = None

    def handle(self, apdu):
        if not self.exchanges:
            self.bad = "an exchange the recorded block does not have: %s" % bytes(apdu).hex()
            raise _Mismatch(self.bad)
        want, outcome = self.exchanges.pop(0)
        if bytes(apdu) != want:
            self.bad = "sent %s where the recorded block has %s" % (bytes(apdu).hex(), want.hex())
            raise _Mismatch(self.bad)
        if outcome[0] == "raise":
            raise outcome[1]
        return outcome[1]


def isolated(req, block, reply):
    """The request served by a FRESH manager against a device that replays the recorded block: does the fresh manager send
    the same APDUs (and reconnect in the same places), and does it build the same reply?  If not, the long-running manager's
    reply / exchanges depended on something other than this request and the device's answers to it."""
    events, outcomes = block
    exch = [(bytes(e[1]), o) for e, o in zip([e for e in events if e[0] == "apdu"], outcomes)]
    dev = ReplayDevice(exch)
    proto, dongle, world = make_stack(dev, connect=True)
    # a block that starts with the closing of the link is that of a manager with a reconnection pending (earlier link failure)
    proto._comm_issue = bool(events) and events[0][0] == "close"
    n0 = len(world.log)
    try:
        r = proto.handle_request(real_json.loads(line_of(req)))
    except BaseException as e:
        reraise_control_flow(e)
        note("isolated run raised", type(e).__name__, str(e)[:200], dev.bad)
        return False
    got = [(e[0],) + ((bytes(e[1]),) if e[0] == "apdu" else ()) for e in world.log[n0:]]
    want = [(e[0],) + ((bytes(e[1]),) if e[0] == "apdu" else ()) for e in events]
    if dev.bad or dev.exchanges or got != want:
        note("isolated run differs", dev.bad, len(dev.exchanges), len(got), len(want))
        return False
    return real_json.dumps(r, sort_keys=True).encode() + b"\n" == reply


def sequential(order, reqs, faulty=False):
    """The requests served one after the other by one fresh manager: ({i: apdu list}, {i: reply bytes}, isolation verdict).
    The isolation verdict says whether every request, re-run by a fresh manager of its own against the recorded device
    answers of its block, yields the same exchanges and the same reply."""
    proto, dongle, world = make_stack(device(faulty), connect=False)
    proto.initialize_device()
    world.outcomes = []
    apdus, replies, blocks = {}, {}, {}
    for i in order:
        n0, k0 = len(world.log), len(world.outcomes)
        r = proto.handle_request(real_json.loads(line_of(reqs[i])))
        events = list(world.log[n0:])
        apdus[i] = [bytes(e[1]) for e in events if e[0] == "apdu"]
        replies[i] = real_json.dumps(r, sort_keys=True).encode() + b"\n"
        blocks[i] = (events, list(world.outcomes[k0:]))
    ok = all(isolated(reqs[i], blocks[i], replies[i]) for i in order)
    return apdus, replies, ok


def serve_concurrently(reqs, choices, faulty=False):
    """Real TCPServer.run with all clients waiting.  Returns (device apdu log after bring-up, bytes received per client, sched)."""
    proto, dongle, world = make_stack(device(faulty), connect=False)
    sched = Sched(choices)
    install_conditions(sched)
    net = Net(sched, [line_of(r) for r in reqs])
    world.fault_hook = lambda k, apdu: sched.yield_point("exchange")
    saved = (socketserver.socket, socketserver._ServerSelector, socketserver.os)
    socketserver.socket = SocketModule(net)
    mark = {"n": None}

    def on_register():
        mark["n"] = len(world.apdus())       # everything before this point is the bring-up
    socketserver._ServerSelector = selector_class(net, on_register)
    socketserver.os = OsModule()
    srv = server.TCPServer("127.0.0.1", 9999, proto)
    srv.logger = _NotingLogger()
    try:
        srv.run()
    finally:
        sched.active = False
        sched.abort()
        uninstall_conditions()
        socketserver.socket, socketserver._ServerSelector, socketserver.os = saved
    if mark["n"] is None:
        raise Inconclusive("the server never started serving")
    return [bytes(a) for a in world.apdus()[mark["n"]:]], net, sched


def judge(reqs, log, net, faulty=False):
    n = len(reqs)
    for order in itertools.permutations(range(n)):
        apdus, replies, isolated_ok = sequential(order, reqs, faulty)
        flat = [a for i in order for a in apdus[i]]
        if flat == log and all(net.received[i] == replies[i] for i in range(n)):
            # the concurrent run is this sequential one; and in it every reply is built from its own request's exchanges
            return isolated_ok
    return False


def run(reqs, choices, faulty=False):
    import sim.base as sb
    sb.REAL_HEX[0] = True          # the replies are rendered to real JSON lines
    try:
        with _Recorder():
            if sb.in_crosshair():
                # requests, device and replies are concrete; only the schedule variables are symbolic and they are looked at in
                # Sched.split alone: the server code itself runs at native speed
                from crosshair.tracers import NoTracing
                with NoTracing():
                    return _run(reqs, choices, faulty)
            return _run(reqs, choices, faulty)
    finally:
        sb.REAL_HEX[0] = False


def _run(reqs, choices, faulty):
    try:
        log, net, sched = serve_concurrently(reqs, choices, faulty)
    except Inconclusive:
        raise
    except Exception as e:
        reraise_control_flow(e)
        import traceback
        note("serving raised", type(e).__name__, "".join(traceback.format_exception(e))[-600:])
        return False
    note("schedule", sched.decisions, "max runnable", sched.max_runnable, "bound exhausted", sched.exhausted)
    return judge(reqs, log, net, faulty)


NCHOICES = 14
_NAMES = ["c%d" % j for j in range(NCHOICES)]


def _zero(**kw):
    d = {n: 0 for n in _NAMES}
    d.update(kw)
    return d


@obligation(tier="quick", parts=len(SETS), timeout=300,
            part_names=lambda p: " | ".join(CATALOGUE[i][0] for i in SETS[p]) + (" [device abandons the advance]" if p in FAULTY else ""),
            bounds="2, 3 or 4 (T: up to 5) simultaneously connected clients (11 (T: 17) request sets from: authorized sign, hash sign, "
                   "advanceBlockchain, blockchainState, signerHeartbeat, getPubKey - partition); decision points: select() of the accept "
                   "loop, every device exchange, every socket read and write; schedule: 14 solver variables c0..c13, one consumed per "
                   "decision point with more than one runnable party (later ones take the first party); preemption inside other code is "
                   "not modelled; simulated sockets instead of TCP; forking servers not modelled (inconclusive)",
            examples=[(0, _zero()), (0, _zero(c0=1)), (6, _zero(c0=2, c1=1)), (1, {n: 1 for n in _NAMES}), (9, _zero(c0=3, c1=1, c2=1))])
def schedules(c0: int, c1: int, c2: int, c3: int, c4: int, c5: int, c6: int, c7: int, c8: int, c9: int,
              c10: int, c11: int, c12: int, c13: int) -> bool:
    """
    pre: 0 <= c0 <= 4 and 0 <= c1 <= 4 and 0 <= c2 <= 4 and 0 <= c3 <= 4 and 0 <= c4 <= 4
    pre: 0 <= c5 <= 4 and 0 <= c6 <= 4 and 0 <= c7 <= 4 and 0 <= c8 <= 4 and 0 <= c9 <= 4
    pre: 0 <= c10 <= 4 and 0 <= c11 <= 4 and 0 <= c12 <= 4 and 0 <= c13 <= 4
    post: _
    """
    reqs = [CATALOGUE[i][1] for i in SETS[part()]]
    return run(reqs, [c0, c1, c2, c3, c4, c5, c6, c7, c8, c9, c10, c11, c12, c13], faulty=part() in FAULTY)
