"""C12 Concurrent clients never interleave on the device.

The REAL comm.server.TCPServer.run / _TCPServerRequestHandler / _RequestHandler and the REAL standard-library
socketserver classes they instantiate (accept loop, process_request, StreamRequestHandler set-up and tear-down)
run over a simulated socket layer: `socket` and `_ServerSelector` inside the socketserver module are replaced
by an in-memory listening socket, per-client connection sockets and a selector.  N clients (2 or 3) are
"simultaneously connected": each has sent its request line and waits for the answer.

THE SCHEDULE IS A VECTOR OF SOLVER VARIABLES.  Every point where the operating system could run something else
is a decision point: the selector's select() (which waiting connection does accept() return next / does a
request-handling thread run instead), every device exchange and every socket read / write (may another
runnable thread go first).  Threads the code under test starts are REAL threads, but they are only ever let
run one at a time, from one decision point to the next, by the harness' scheduler; the scheduler decides in
the main thread, from the next schedule variable `c<j>` (case split on a symbolic int), so CrossHair / z3
explore the tree of schedules and a counterexample is a concrete schedule that replays deterministically.

Oracle (linearisability with contiguous device blocks): there is an order of the N requests such that
the device's APDU log is exactly the concatenation of the APDU sequences of these requests served alone one
after the other on a fresh manager, AND every client's socket received exactly the reply of its own request
in that sequential run (the replies depend on the order when a request changes the device state).
"""
import io
import itertools
import os
import threading

from harness.common import obligation, part, reraise_control_flow, note, NULL_LOGGER
from harness.world import make_stack
from harness.catalog import valid_request
from sim.ledger import SimDevice

import json as real_json
import socket as real_socket
import selectors as real_selectors
import socketserver
import comm.server as server

SETTLE_SPINS = 2500     # x 2 ms: upper bound for one settle


class _Abort(BaseException):
    """Raised inside a request-handling thread when the harness tears the run down."""


try:
    from crosshair.util import IgnoreAttempt as _Ignore
except Exception:      # pragma: no cover
    _Ignore = BaseException


class Inconclusive(_Ignore):
    """The run cannot be judged (e.g. a forking server): under CrossHair the path is left unconfirmed (-> inconclusive),
    in a concrete run it surfaces as a harness error; never a verdict."""


_BASELINE = set(t.ident for t in threading.enumerate())     # threads that exist before any run (none of them is the code's)
_ACTIVE = [None]                                            # the scheduler of the run in progress
_ORIG_COND = (threading.Condition.wait, threading.Condition.notify, threading.Condition.notify_all)
QUIET_SAMPLES = 25       # x 2 ms without the thread's frame moving: it sits in a blocking call


class Sched:
    """Decides, at every decision point, which party runs next.  All decisions are taken in the main thread.

    Parties: threads parked at a decision point (device exchange, socket read / write), threads waiting on a threading.Condition
    (Future.result, Event.wait, Queue.get ... all go through Condition.wait, which is rebound for the run): runnable once
    notified and, if the wait has a time-out, also through the option "its time-out expires" - time is not modelled, a time-out
    may expire at any decision point.  Threads blocked in anything else (a contended lock, a C-level queue) are recognised by
    their frame not moving and are simply not runnable until they show up at a decision point."""
    def __init__(self, choices):
        self.choices = list(choices)
        self.ci = 0
        self.main = threading.get_ident()
        self.cv = threading.Condition()
        self.blocked = {}          # thread ident -> label: parked at a decision point
        self.waiting = {}          # thread ident -> {"cond", "timed", "notified"}: inside a modelled Condition.wait
        self.main_wait = None      # the same record for the main thread
        self.order = {}            # thread ident -> number (order of first appearance: deterministic)
        self.granted = None
        self.active = False
        self.aborting = False
        self.decisions = []        # (options, chosen) - for the replay notes
        self.exhausted = False
        self.max_runnable = 1

    def number(self, tid):
        if tid not in self.order:
            self.order[tid] = len(self.order)
        return self.order[tid]

    # ---- called by any thread at a decision point
    def yield_point(self, label):
        if not self.active:
            return
        tid = threading.get_ident()
        if tid == self.main:
            self.run_others(allow_self=True)
            return
        with self.cv:
            self.number(tid)
            self.blocked[tid] = label
            self.park(tid)

    def park(self, tid):
        """(cv held) wait for the grant."""
        self.cv.notify_all()
        while self.granted != tid and not self.aborting:
            _ORIG_COND[0](self.cv)
        if self.aborting:
            rec = self.waiting.pop(tid, None)
            if rec is not None and rec["notified"]:
                return                   # (the run is over; what this thread waited for has happened: let it finish)
            raise _Abort()
        self.granted = None

    # ---- modelled threading.Condition
    def cond_wait(self, cond, timed):
        """The calling thread has released the condition's lock.  Returns True iff it was notified (False: the time-out expired)."""
        tid = threading.get_ident()
        rec = {"cond": cond, "timed": timed, "notified": False}
        if tid != self.main:
            with self.cv:
                self.number(tid)
                self.waiting[tid] = rec
                self.park(tid)
            return rec["notified"]
        self.main_wait = rec
        try:
            while not rec["notified"]:
                pick = self.run_others(allow_self=False, extra=[("timeout", "main")] if timed else [])
                if pick is None:
                    if rec["notified"]:
                        break
                    raise Inconclusive("the serving thread waits without time-out for something no runnable thread can provide")
                if pick == ("timeout", "main"):
                    break
            return rec["notified"]
        finally:
            self.main_wait = None

    def cond_notify(self, cond, n):
        with self.cv:
            recs = [self.waiting[t] for t in sorted(self.waiting, key=lambda t: self.order[t])]
            if self.main_wait is not None:
                recs.append(self.main_wait)
            for rec in recs:
                if n <= 0:
                    break
                if rec["cond"] is cond and not rec["notified"]:
                    rec["notified"] = True
                    n -= 1

    # ---- main thread only
    def others_alive(self):
        # (enumerate() = running threads + threads whose start() is in progress; those have no ident yet)
        return [t for t in threading.enumerate() if t.ident is None or (t.ident not in _BASELINE and t.ident != self.main)]

    def settle(self):
        """Wait until every other thread is parked, waiting on a condition, ended - or sits in some other blocking call."""
        import sys
        quiet = {}
        spins = 0         # (no clock: CrossHair models the time functions as nondeterministic inputs)
        with self.cv:
            while True:
                loose = [t for t in self.others_alive() if t.ident not in self.blocked and t.ident not in self.waiting]
                if not loose:
                    return
                frames = sys._current_frames()
                all_quiet = True
                for t in loose:
                    f = frames.get(t.ident) if t.ident is not None else None
                    if f is None:
                        all_quiet = False          # not running yet (or just ending): wait for it
                        continue
                    key = (id(f), f.f_lasti)
                    prev = quiet.get(t.ident)
                    quiet[t.ident] = (key, prev[1] + 1) if prev is not None and prev[0] == key else (key, 0)
                    if quiet[t.ident][1] < QUIET_SAMPLES:
                        all_quiet = False
                del frames
                spins += 1
                if all_quiet or spins > SETTLE_SPINS:
                    return
                _ORIG_COND[0](self.cv, 0.002)

    def options(self):
        with self.cv:
            out = [("thread", self.order[t]) for t in self.blocked]
            for t, rec in self.waiting.items():
                if rec["notified"]:
                    out.append(("thread", self.order[t]))
                elif rec["timed"]:
                    out.append(("timeout", self.order[t]))
            return sorted(out, key=lambda o: (o[1], o[0]))

    def choose(self, options):
        self.max_runnable = max(self.max_runnable, len(options))
        if len(options) == 1:
            return options[0]
        if self.ci >= len(self.choices):
            self.exhausted = True          # beyond the schedule bound: the first option (recorded in the evidence bounds)
            pick = options[0]
        else:
            c = self.choices[self.ci]
            self.ci += 1
            pick = options[self.split(c, len(options))]
        self.decisions.append(([str(o) for o in options], str(pick)))
        return pick

    @staticmethod
    def split(c, n):
        """Index 0..n-1 selected by the schedule variable c (c >= n-1 selects the last): a case split on a SYMBOLIC int, i.e. one
        CrossHair path per option.  Everything else in a run is concrete and is executed natively; symbolic tracing is
        switched back on just for this comparison."""
        from sim.base import in_crosshair_thread
        if in_crosshair_thread():
            from crosshair.tracers import ResumedTracing
            with ResumedTracing():
                for k in range(n - 1):
                    if c == k:
                        return k
                return n - 1
        for k in range(n - 1):
            if c == k:
                return k
        return n - 1

    def grant(self, tid):
        with self.cv:
            self.blocked.pop(tid, None)
            self.waiting.pop(tid, None)
            self.granted = tid
            self.cv.notify_all()
        self.settle()

    def run_others(self, allow_self, extra=()):
        """Decision loop.  Returns 'self' or one of `extra` when that option is chosen; lets another thread run otherwise.
        None: nothing at all is runnable."""
        while True:
            self.settle()
            if self.main_wait is not None and self.main_wait["notified"]:
                return None
            opts = (["self"] if allow_self else []) + list(extra) + self.options()
            if not opts:
                return None
            pick = self.choose(opts)
            if pick == "self" or pick in extra:
                return pick
            tid = [t for t, n in self.order.items() if n == pick[1]][0]
            self.grant(tid)

    def abort(self):
        with self.cv:
            self.aborting = True
            self.cv.notify_all()
        for t in self.others_alive():
            if t.ident in self.order:
                t.join(0.5)


def _cond_wait(self, timeout=None):
    s = _ACTIVE[0]
    if s is None or not s.active or self is s.cv or s.aborting:
        return _ORIG_COND[0](self, timeout)
    if not self._is_owned():
        raise RuntimeError("cannot wait on un-acquired lock")
    saved = self._release_save()
    try:
        return s.cond_wait(self, timeout is not None)
    finally:
        self._acquire_restore(saved)


def _cond_notify(self, n=1):
    s = _ACTIVE[0]
    if s is not None and s.active and self is not s.cv:
        s.cond_notify(self, n)
    return _ORIG_COND[1](self, n)


def _cond_notify_all(self):
    s = _ACTIVE[0]
    if s is not None and s.active and self is not s.cv:
        s.cond_notify(self, 1 << 30)
    return _ORIG_COND[2](self)


def install_conditions(sched):
    _ACTIVE[0] = sched
    threading.Condition.wait = _cond_wait
    threading.Condition.notify = _cond_notify
    threading.Condition.notify_all = _cond_notify_all


def uninstall_conditions():
    _ACTIVE[0] = None
    threading.Condition.wait, threading.Condition.notify, threading.Condition.notify_all = _ORIG_COND


# ------------------------------------------------------------------ simulated socket layer

class Net:
    """The clients and what they have sent / received."""
    def __init__(self, sched, lines):
        self.sched = sched
        self.lines = list(lines)
        self.waiting = list(range(len(lines)))     # connected, not yet accepted
        self.accepted = []                         # the order in which accept() returned them
        self.next_accept = None
        self.received = [b"" for _ in lines]
        self.closed = [False for _ in lines]
        self.server = None


class ConnSocket:
    def __init__(self, net, i):
        self.net = net
        self.i = i
        self.pos = 0

    # reading side (StreamRequestHandler wraps it with makefile('rb'))
    def makefile(self, mode="r", buffering=-1):
        assert "r" in mode
        sock = self

        class Raw(io.RawIOBase):
            def readable(self):
                return True

            def readinto(self, b):
                sock.net.sched.yield_point("recv-%d" % sock.i)
                data = sock.net.lines[sock.i][sock.pos:sock.pos + len(b)]
                b[:len(data)] = data
                sock.pos += len(data)
                return len(data)
        return io.BufferedReader(Raw(), buffer_size=buffering if buffering and buffering > 0 else 8192)

    # writing side (socketserver._SocketWriter)
    def sendall(self, data):
        self.net.sched.yield_point("send-%d" % self.i)
        self.net.received[self.i] += bytes(data)

    def send(self, data):
        self.sendall(data)
        return len(data)

    def shutdown(self, how):
        pass

    def close(self):
        self.net.closed[self.i] = True

    def settimeout(self, t):
        pass

    def setsockopt(self, *a):
        pass

    def fileno(self):
        return 100 + self.i


class ListenSocket:
    def __init__(self, net):
        self.net = net
        self.addr = None

    def setsockopt(self, *a):
        pass

    def bind(self, addr):
        self.addr = addr

    def getsockname(self):
        return self.addr

    def listen(self, n):
        pass

    def fileno(self):
        return 99

    def gettimeout(self):
        return None

    def close(self):
        pass

    def accept(self):
        i = self.net.next_accept
        if i is None:
            raise BlockingIOError("no connection waiting")
        self.net.next_accept = None
        return ConnSocket(self.net, i), ("10.0.0.%d" % (i + 1), 40000 + i)


class SocketModule:
    """`socket` as seen by the socketserver module."""
    def __init__(self, net):
        self._net = net

    def socket(self, family=None, type=None, *a, **k):
        return ListenSocket(self._net)

    def __getattr__(self, name):
        return getattr(real_socket, name)


class OsModule:
    """`os` as seen by the socketserver module: forking servers are beyond this harness."""
    def __getattr__(self, name):
        raise Inconclusive("socketserver used os.%s (forking server?): not modelled" % name)


def selector_class(net, on_register):
    class Selector:
        def __enter__(self):
            return self

        def __exit__(self, *a):
            return False

        def register(self, fileobj, events, data=None):
            net.server = fileobj
            on_register()
            net.sched.active = True

        def select(self, timeout=None):
            s = net.sched
            pick = s.run_others(allow_self=False, extra=[("accept", i) for i in net.waiting])
            if pick is None:
                # every client has been accepted and nothing the server started is runnable any more: stop serving
                net.sched.active = False
                net.server._BaseServer__shutdown_request = True
                return []
            net.waiting.remove(pick[1])
            net.accepted.append(pick[1])
            net.next_accept = pick[1]
            return [(None, real_selectors.EVENT_READ)]
    return Selector


# ------------------------------------------------------------------ requests and the sequential reference

def _v1_sign():
    r = valid_request("sign", 1, version=1)
    r["message"] = r["message"]["hash"]
    return r


def _bad_advance():
    from harness.catalog import BLOCK_A, BLOCK_17, BRO_1
    return {"command": "advanceBlockchain", "version": 5, "blocks": [BLOCK_A.hex(), BLOCK_17.hex()], "brothers": [[BRO_1.hex()], []]}


def _sign_2in(i):
    from harness.catalog import mk_tx, push, SIG, REDEEM, pat
    tx = mk_tx([(pat(32, 1), 0, b"\x00" + push(SIG) + push(REDEEM), 0xfffffffe), (pat(32, 4), 7, b"\x00" + push(SIG) + push(REDEEM), 3)],
               [(1000, pat(25, 2))], version=2, locktime=17)
    r = valid_request("sign", 0)
    r["message"]["tx"] = tx.hex()
    r["message"]["input"] = i
    return r


def requests_catalogue():
    sign = valid_request("sign", 0)
    sign2 = valid_request("sign", 1)
    adv = valid_request("advanceBlockchain", 0)
    return [("sign (authorized)", sign), ("blockchainState", valid_request("blockchainState")),
            ("advanceBlockchain", adv), ("signerHeartbeat", valid_request("signerHeartbeat")),
            ("getPubKey", valid_request("getPubKey")), ("sign (hash)", sign2),
            ("advanceBlockchain (2 blocks)", valid_request("advanceBlockchain", 1)),
            ("uiHeartbeat", valid_request("uiHeartbeat")), ("v1 sign", _v1_sign()), ("v1 getPubKey", valid_request("getPubKey", 2, version=1)),
            ("advanceBlockchain (2nd block lacks its merge-mining fields)", _bad_advance()),
            ("sign (authorized), input 0 of a 2-input tx", _sign_2in(0)), ("sign (authorized), input 1 of the same tx", _sign_2in(1))]


CATALOGUE = requests_catalogue()
# special request sets (index into SETS -> mode):
#   "faulty":  the device's blockchain state moves with every block and it stops answering at the second block of an advance
#   "hb":      a uiHeartbeat (the device switches to the UI-heartbeat app and back to the signer: two re-openings of the link)
#   "v1fault": a manager in legacy (v1) protocol mode; the link fails (write error) at the second exchange after serving starts
#   "fatal":   the device answers the sign command with a status the manager treats as fatal (reply -906, then shutdown):
#              clients accepted afterwards are not served; nothing else may talk to the device meanwhile
#   "tcpslow": the TCP dongle class over a byte-stream transport; the device is slow with one answer.  A blocking read waits;
#              should the code give the socket a time-out, the late answer stays in the stream - reading it as the answer to
#              another APDU is counted (world.misrouted) and fails the run
#   "tcphb":   both heartbeat commands on the TCP dongle class (atomic transport)
MODES = {11: "faulty", 12: "faulty", 13: "hb", 14: "v1fault", 15: "fatal", 16: "fatal", 17: "tcpslow", 18: "tcphb"}
PAIRS = [(0, 1), (0, 2), (2, 1), (3, 0), (0, 5), (4, 3)]
TRIPLES = [(0, 1, 2), (3, 0, 4), (0, 5, 2)]
SETS = PAIRS + TRIPLES + [(0, 1, 2, 3), (2, 5, 4, 0)]                    # 2, 3 and 4 clients
SETS = SETS + [(1, 6, 1), (6, 1, 4, 1)]      # ("faulty") a state query before and after a two-block advance the device abandons half way
SETS = SETS + [(7, 1, 4), (8, 9, 8)]         # ("hb") uiHeartbeat | state | getPubKey ; ("v1fault") v1: sign | getPubKey | sign
SETS = SETS + [(5, 1), (1, 5, 4)]            # ("fatal") hash sign (fatal) | state [| getPubKey]
SETS = SETS + [(5, 4, 1)]                    # ("tcpslow") hash sign | getPubKey | state on the TCP dongle
SETS = SETS + [(3, 7, 3)]                    # ("tcphb") signerHeartbeat | uiHeartbeat | signerHeartbeat on the TCP dongle
SETS = SETS + [(10, 2, 1)]                   # an advance the manager abandons half way | a good advance | state
SETS = SETS + [(11, 12, 11)]                 # two clients sign different inputs of one transaction (and one of them twice)
if os.environ.get("VERIF_TIER") == "thorough":
    SETS = SETS + [(2, 0, 3), (1, 2, 5), (0, 0, 1), (0, 0, 0, 0), (3, 2, 1, 0), (0, 1, 2, 3, 4), (0, 1, 2, 3, 4, 5)]    # (equal requests too), 5 and 6 clients


class _NotingLogger:
    """Swallows the server's log output, keeps what it reports as critical / error for the counterexample notes."""
    @staticmethod
    def quiet():
        from harness.common import NULL_LOGGER
        return NULL_LOGGER

    def critical(self, msg, *a):
        import traceback
        note("server log (critical)", threading.current_thread().name, str(msg)[:300], [str(x)[:300] for x in a], traceback.format_exc()[-1200:])

    error = critical

    def info(self, *a, **k):
        pass

    debug = warning = info


def line_of(req):
    return real_json.dumps(req).encode() + b"\n"


class StatefulDevice(SimDevice):
    """The simulated signer with a blockchain state that MOVES: every block taken by an advance changes the best block the state
    query reports.  `fail_block` = k makes the device stop answering (time-out) when the metadata of block k of an advance
    arrives - after it has taken the blocks before."""
    def __init__(self, fail_block=None):
        super().__init__()
        self.chunk = 40
        self.fail_block = fail_block
        self.taken = 0

    def _after_block(self, b, cmd, OP_META, OP_PARTIAL, OP_SUCCESS):
        if cmd == 0x10:
            self.taken += 1
            for sel in list(self.hashes.keys()) or [0x01]:
                self.hashes[sel] = [(self.taken * 17 + sel) & 0xff] * 32
        return SimDevice._after_block(self, b, cmd, OP_META, OP_PARTIAL, OP_SUCCESS)

    fatal_on_sign = False

    def handle(self, apdu):
        from sim.base import blist, raise_fault, FAULT_TIMEOUT, FAULT_SW
        a = blist(apdu)
        if self.fatal_on_sign and a[1] == 0x02:
            raise_fault(FAULT_SW, 0x6F01)        # an error the manager treats as fatal: it answers -906 and shuts down
        if self.fail_block is not None and len(a) > 2 and a[1] == 0x10 and a[2] == 0x03 and self.block_op is not None \
                and len(self.block_op["blocks"]) == self.fail_block:
            raise_fault(FAULT_TIMEOUT)
        return SimDevice.handle(self, apdu)


class _Sock:
    """The socket of a byte-stream transport: blocking unless the code under test gives it a time-out."""
    def __init__(self):
        self.timeout = None

    def settimeout(self, t):
        self.timeout = t

    def gettimeout(self):
        return self.timeout


class StreamTransport:
    """What ledgerblue's TCP getDongle() returns, as a BYTE STREAM: the device's answers queue up in the stream and the host reads
    the one at the front.  An answer the device is slow with makes a read that has a time-out fail (TimeoutError) - and stays in
    the stream; a blocking read just waits for it.  `world.misrouted` counts reads that got an answer belonging to another APDU."""
    def __init__(self, world):
        self.world = world
        self.opened = True
        self.socket = _Sock()
        self.stream = []
        world.log.append(("open",))

    def exchange(self, apdu, timeout=20000):
        w = self.world
        k = w.exchanges
        w.exchanges += 1
        w.log.append(("apdu", apdu))
        if w.fault_hook is not None:
            w.fault_hook(k, apdu)
        token = object()
        try:
            outcome = ("ok", w.device.handle(apdu), token)
        except BaseException as e:
            if type(e).__name__ == "_Abort":
                raise
            outcome = ("raise", e, token)
        self.stream.append(outcome)
        if w.slow is not None and w.slow(k) and self.socket.timeout is not None:
            raise TimeoutError("timed out")          # the answer arrives later: it is still in the stream
        got = self.stream.pop(0)
        if got[2] is not token:
            w.misrouted += 1
        if got[0] == "raise":
            raise got[1]
        return got[1]

    def close(self):
        self.world.log.append(("close",))
        self.opened = False
        self.stream = []


SLOW_AT = 1       # "tcpslow": index (after the bring-up) of the exchange whose answer the device is slow with


def device(mode=""):
    d = StatefulDevice(fail_block=1 if mode == "faulty" else None)
    if mode in ("hb", "tcphb"):
        d.mode_after_exit = [4, 3]
    if mode == "fatal":
        d.fatal_on_sign = True
    # the state query reads these: give every selector an explicit initial value
    from harness.c13 import STATE_FIELDS
    d.hashes = {sel: [sel & 0xff] * 32 for (_, sel) in STATE_FIELDS}
    return d


# ---- recording what the transport did, and replaying one request's block in isolation

class _Recorder:
    """Wraps the transports' exchange for the duration of a run: per world, the outcome (answer or exception) of every exchange."""
    def __enter__(self):
        import sim.base as sb
        self.classes = [sb.Transport, StreamTransport]
        self.orig = [c.exchange for c in self.classes]
        for cls, orig in zip(self.classes, self.orig):
            cls.exchange = self.wrap(orig)
        return self

    @staticmethod
    def wrap(orig):
        def exchange(tr, apdu, timeout=20000):
            w = tr.world
            if not hasattr(w, "outcomes"):
                w.outcomes = []
            try:
                r = orig(tr, apdu, timeout)
            except BaseException as e:
                if type(e).__name__ not in ("_Abort",):
                    w.outcomes.append(("raise", e))
                raise
            w.outcomes.append(("ok", r))
            return r
        return exchange

    def __exit__(self, *a):
        for cls, orig in zip(self.classes, self.orig):
            cls.exchange = orig
        return False


class _Mismatch(Exception):
    pass


class _Misrouted(Exception):
    pass


class ReplayDevice:
    """Answers exactly what was recorded, provided it is sent exactly what was recorded."""
    def __init__(self, exchanges):
        self.exchanges = list(exchanges)      # [(apdu bytes, outcome)]
        self.bad = None

    def handle(self, apdu):
        if not self.exchanges:
            self.bad = "an exchange the recorded block does not have: %s" % bytes(apdu).hex()
            raise _Mismatch(self.bad)
        want, outcome = self.exchanges.pop(0)
        if bytes(apdu) != want:
            self.bad = "sent %s where the recorded block has %s" % (bytes(apdu).hex(), want.hex())
            raise _Mismatch(self.bad)
        if outcome[0] == "raise":
            raise outcome[1]
        return outcome[1]


def serve_one(proto, req):
    """What the server layer makes of one request: (reply bytes, fatal?).  HSM2ProtocolError = reply 'unknown error', then shutdown."""
    from comm.protocol import HSM2ProtocolError
    try:
        r = proto.handle_request(real_json.loads(line_of(req)))
    except HSM2ProtocolError:
        return real_json.dumps(proto.unknown_error(), sort_keys=True).encode() + b"\n", True
    return real_json.dumps(r, sort_keys=True).encode() + b"\n", False


def isolated(req, block, reply, v1=False, platform="ledger"):
    """The request served by a FRESH manager against a device that replays the recorded block: does the fresh manager send
    the same APDUs (and reconnect in the same places), and does it build the same reply?  If not, the long-running manager's
    reply / exchanges depended on something other than this request and the device's answers to it."""
    events, outcomes = block
    exch = [(bytes(e[1]), o) for e, o in zip([e for e in events if e[0] == "apdu"], outcomes)]
    dev = ReplayDevice(exch)
    proto, dongle, world = make_stack(dev, connect=True, v1=v1, platform=platform)
    # a block that starts with the closing of the link is that of a manager with a reconnection pending (earlier link failure)
    (proto.protocol_v2 if v1 else proto)._comm_issue = bool(events) and events[0][0] == "close"
    n0 = len(world.log)
    try:
        got_reply, _ = serve_one(proto, req)
    except BaseException as e:
        reraise_control_flow(e)
        note("isolated run raised", type(e).__name__, str(e)[:200], dev.bad)
        return False
    got = [(e[0],) + ((bytes(e[1]),) if e[0] == "apdu" else ()) for e in world.log[n0:]]
    want = [(e[0],) + ((bytes(e[1]),) if e[0] == "apdu" else ()) for e in events]
    if dev.bad or dev.exchanges or got != want:
        note("isolated run differs", dev.bad, len(dev.exchanges), len(got), len(want))
        return False
    return got_reply == reply


LINK_FAULT_AT = 1       # "v1fault": index (after the bring-up) of the exchange whose write fails


def _fault_or_none(mode, k_after_bringup):
    if mode == "v1fault" and k_after_bringup == LINK_FAULT_AT:
        from sim.base import raise_fault, FAULT_WRITE
        raise_fault(FAULT_WRITE)


def _wait_for_strays():
    """Threads the code under test may have left running: give them (bounded) time to finish; True iff some were there."""
    seen = False
    cv = threading.Condition()
    with cv:
        for _ in range(500):
            extra = [t for t in threading.enumerate() if t.ident is None or (t.ident not in _BASELINE and t is not threading.current_thread())]
            if not extra:
                break
            seen = True
            _ORIG_COND[0](cv, 0.002)
    return seen


def _stack(mode):
    platform = "tcp" if mode in ("tcpslow", "tcphb") else "ledger"
    proto, dongle, world = make_stack(device(mode), connect=False, v1=mode == "v1fault", platform=platform)
    world.misrouted = 0
    world.slow = None
    if mode == "tcpslow":
        import ledger.hsm2dongle_tcp as ht
        ht.getDongle = lambda *a, **k: StreamTransport(world)
    return proto, dongle, world


def sequential(order, reqs, mode=""):
    """The requests served one after the other by one fresh manager: ({i: apdu list}, {i: reply bytes}, isolation verdict).
    The isolation verdict says whether, in this sequential run,
      - every device exchange was made by the serving thread while it was serving a request (none by a thread left behind),
      - every request, re-run by a fresh manager of its own against the recorded device answers of its block, yields the same
        exchanges and the same reply,
      - a request's block starts with the re-opening of the link only if the previous request was answered with the device-error
        code (i.e. only the documented repair after a reported link failure, never another request's unfinished business)."""
    proto, dongle, world = _stack(mode)
    proto.initialize_device()
    world.outcomes = []
    base = world.exchanges
    if mode == "tcpslow":
        world.slow = lambda k: k - base == SLOW_AT
    me = threading.get_ident()
    stray = []

    def hook(k, apdu):
        if threading.get_ident() != me:
            stray.append(k)
        _fault_or_none(mode, k - base)
    world.fault_hook = hook
    apdus, replies, blocks = {}, {}, {}
    ok = True
    prev_reply = None
    down = False
    served = []
    for i in order:
        if down:
            apdus[i], replies[i] = [], b""          # the manager is shutting down: this client is not served
            continue
        n0, k0 = len(world.log), len(world.outcomes)
        reply, fatal = serve_one(proto, reqs[i])
        if _wait_for_strays():
            note("the request left a thread running")
        events = list(world.log[n0:])
        apdus[i] = [bytes(e[1]) for e in events if e[0] == "apdu"]
        replies[i] = reply
        blocks[i] = (events, list(world.outcomes[k0:]))
        served.append(i)
        r = real_json.loads(reply)
        if events and events[0][0] == "close" and not (isinstance(prev_reply, dict) and prev_reply.get("errorcode") in (-905, -2)):
            note("block starts with a re-opening although the previous request was not answered with the device-error code", i)
            ok = False
        prev_reply = r
        down = fatal
    if stray:
        note("device exchanges made by a thread other than the serving one", stray[:5])
        ok = False
    if world.misrouted:
        note("the host read answers that belong to other exchanges", world.misrouted)
        ok = False
    ok = ok and all(isolated(reqs[i], blocks[i], replies[i], v1=mode == "v1fault", platform="tcp" if mode in ("tcpslow", "tcphb") else "ledger")
                    for i in served)
    return apdus, replies, ok


def serve_concurrently(reqs, choices, mode=""):
    """Real TCPServer.run with all clients waiting.  Returns (device apdu log after bring-up, bytes received per client, sched)."""
    proto, dongle, world = _stack(mode)
    sched = Sched(choices)
    install_conditions(sched)
    net = Net(sched, [line_of(r) for r in reqs])
    base = {"k": None}

    def exchange_hook(k, apdu):
        sched.yield_point("exchange")
        if base["k"] is not None:
            _fault_or_none(mode, k - base["k"])
    world.fault_hook = exchange_hook
    saved = (socketserver.socket, socketserver._ServerSelector, socketserver.os)
    socketserver.socket = SocketModule(net)
    mark = {"n": None}

    def on_register():
        mark["n"] = len(world.apdus())       # everything before this point is the bring-up
        base["k"] = world.exchanges
        if mode == "tcpslow":
            world.slow = lambda k: k - base["k"] == SLOW_AT
    socketserver._ServerSelector = selector_class(net, on_register)
    socketserver.os = OsModule()
    srv = server.TCPServer("127.0.0.1", 9999, proto)
    srv.logger = _NotingLogger()
    try:
        srv.run()
    finally:
        sched.active = False
        sched.abort()
        uninstall_conditions()
        socketserver.socket, socketserver._ServerSelector, socketserver.os = saved
    if mark["n"] is None:
        raise Inconclusive("the server never started serving")
    if world.misrouted:
        note("the host read answers that belong to other exchanges", world.misrouted)
        raise _Misrouted()
    return [bytes(a) for a in world.apdus()[mark["n"]:]], net, sched


_SEQ_CACHE = {}


def sequential_cached(order, reqs, mode):
    """(the sequential reference runs are concrete and deterministic: one run per order and request set serves all paths)"""
    key = (part(), tuple(order), mode)
    if key not in _SEQ_CACHE:
        _SEQ_CACHE[key] = sequential(order, reqs, mode)
    return _SEQ_CACHE[key]


def judge(reqs, log, net, mode=""):
    n = len(reqs)
    first = tuple(net.accepted) if sorted(net.accepted) == list(range(n)) else None
    orders = ([first] if first else []) + [o for o in itertools.permutations(range(n)) if o != first]
    for order in orders:
        apdus, replies, isolated_ok = sequential_cached(order, reqs, mode)
        flat = [a for i in order for a in apdus[i]]
        if flat == log and all(net.received[i] == replies[i] for i in range(n)):
            # the concurrent run is this sequential one; and in it every reply is built from its own request's exchanges
            return isolated_ok
    return False


def run(reqs, choices, mode=""):
    import sim.base as sb
    sb.REAL_HEX[0] = True          # the replies are rendered to real JSON lines
    try:
        with _Recorder():
            if sb.in_crosshair():
                # requests, device and replies are concrete; only the schedule variables are symbolic and they are looked at in
                # Sched.split alone: the server code itself runs at native speed
                from crosshair.tracers import NoTracing
                with NoTracing():
                    return _run(reqs, choices, mode)
            return _run(reqs, choices, mode)
    finally:
        sb.REAL_HEX[0] = False


def _run(reqs, choices, mode):
    try:
        log, net, sched = serve_concurrently(reqs, choices, mode)
    except Inconclusive:
        raise
    except _Misrouted:
        return False
    except Exception as e:
        reraise_control_flow(e)
        import traceback
        note("serving raised", type(e).__name__, "".join(traceback.format_exception(e))[-600:])
        return False
    note("schedule", sched.decisions, "max runnable", sched.max_runnable, "bound exhausted", sched.exhausted)
    return judge(reqs, log, net, mode)


NCHOICES = 14
_NAMES = ["c%d" % j for j in range(NCHOICES)]


def _zero(**kw):
    d = {n: 0 for n in _NAMES}
    d.update(kw)
    return d


@obligation(tier="quick", parts=len(SETS), timeout=300,
            part_names=lambda p: " | ".join(CATALOGUE[i][0] for i in SETS[p]) + (" [%s]" % MODES[p] if p in MODES else ""),
            bounds="2, 3 or 4 (T: up to 6) simultaneously connected clients; 21 (T: 28) request sets (partition) from: authorized sign (two "
                   "inputs of one tx, segwit), hash sign, advanceBlockchain (1 / 2 blocks, one abandoned half way), blockchainState, "
                   "signerHeartbeat, uiHeartbeat, getPubKey, legacy-mode sign / getPubKey; special sets: device that abandons an advance, "
                   "legacy mode with a write error, a fatal device status, TCP dongle class over a byte stream with one slow answer, both "
                   "heartbeats on the TCP class; decision points: select() of the accept loop, every device exchange, every socket read "
                   "and write, every Condition wait; schedule: 14 solver variables c0..c13, one consumed per decision point with more "
                   "than one runnable party (later ones take the first party); preemption inside other code is not modelled; simulated "
                   "sockets instead of TCP; forking servers and signals not modelled",
            examples=[(0, _zero()), (0, _zero(c0=1)), (6, _zero(c0=2, c1=1)), (1, {n: 1 for n in _NAMES}), (9, _zero(c0=3, c1=1, c2=1))])
def schedules(c0: int, c1: int, c2: int, c3: int, c4: int, c5: int, c6: int, c7: int, c8: int, c9: int,
              c10: int, c11: int, c12: int, c13: int) -> bool:
    """
    pre: 0 <= c0 <= 4 and 0 <= c1 <= 4 and 0 <= c2 <= 4 and 0 <= c3 <= 4 and 0 <= c4 <= 4
    pre: 0 <= c5 <= 4 and 0 <= c6 <= 4 and 0 <= c7 <= 4 and 0 <= c8 <= 4 and 0 <= c9 <= 4
    pre: 0 <= c10 <= 4 and 0 <= c11 <= 4 and 0 <= c12 <= 4 and 0 <= c13 <= 4
    post: _
    """
    reqs = [CATALOGUE[i][1] for i in SETS[part()]]
    return run(reqs, [c0, c1, c2, c3, c4, c5, c6, c7, c8, c9, c10, c11, c12, c13], mode=MODES.get(part(), ""))


# ------------------------------------------------------------------ the server layer alone: no reply ever crosses to another client

from comm.protocol import HSM2ProtocolError, HSM2ProtocolInterrupt   # noqa: E402

OUTCOMES = ["a reply", "NotImplementedError", "HSM2ProtocolError", "HSM2ProtocolInterrupt", "an unexpected exception", "the line is not JSON"]


class StubProtocol:
    """Stands for everything below comm.server: what handling each client's request ends in is chosen by the harness."""
    def __init__(self, kinds):
        self.kinds = kinds

    def initialize_device(self):
        pass

    def handle_request(self, request):
        i = request["id"]
        kind = self.kinds[i]
        if kind == 1:
            raise NotImplementedError("command %d" % i)
        if kind == 2:
            raise HSM2ProtocolError("protocol error %d" % i)
        if kind == 3:
            raise HSM2ProtocolInterrupt("interrupt %d" % i)
        if kind == 4:
            raise ValueError("unexpected %d" % i)
        return {"errorcode": 0, "who": i, "pad": "x" * (5 + i)}

    def format_error(self):
        return {"errorcode": -901}

    def unknown_error(self):
        return {"errorcode": -906}

    def device_error(self):
        return {"errorcode": -905}


def _dumps(obj):
    return real_json.dumps(obj, sort_keys=True).encode() + b"\n"


def _crossed(kinds, choices):
    n = len(kinds)
    proto = StubProtocol(kinds)
    sched = Sched(choices)
    install_conditions(sched)
    lines = [b"{this is not json\n" if kinds[i] == 5 else real_json.dumps({"command": "c", "id": i}).encode() + b"\n" for i in range(n)]
    net = Net(sched, lines)
    saved = (socketserver.socket, socketserver._ServerSelector, socketserver.os)
    socketserver.socket = SocketModule(net)
    socketserver._ServerSelector = selector_class(net, lambda: None)
    socketserver.os = OsModule()
    srv = server.TCPServer("127.0.0.1", 9999, proto)
    srv.logger = _NotingLogger.quiet()
    try:
        srv.run()
    except Inconclusive:
        raise
    except Exception as e:
        reraise_control_flow(e)
        note("serving raised", type(e).__name__, str(e)[:200])
        return False
    finally:
        sched.active = False
        sched.abort()
        uninstall_conditions()
        socketserver.socket, socketserver._ServerSelector, socketserver.os = saved
    note("accepted", net.accepted, "kinds", list(kinds), "received", [r[:40] for r in net.received])
    down = False
    for i in net.accepted + [i for i in range(n) if i not in net.accepted]:
        kind = kinds[i]
        own = {0: _dumps({"errorcode": 0, "who": i, "pad": "x" * (5 + i)}), 1: b"{}\n", 2: _dumps({"errorcode": -906}), 3: b"{}\n",
               4: b"{}\n", 5: _dumps({"errorcode": -901})}[kind]
        got = net.received[i]
        if down or i not in net.accepted:
            # a request before this one took the manager down: this client is not served (or, at most, gets its own reply)
            if got not in (b"", own):
                return False
            continue
        if got != own:
            return False
        if kind in (2, 3, 4):
            down = True
    return True


@obligation(tier="quick", parts=2, timeout=200, part_names=["2 clients", "3 clients"],
            bounds="real comm.server + socketserver over the simulated sockets with the protocol object stubbed: what handling each client's "
                   "request ends in is symbolic among {a reply, NotImplementedError, HSM2ProtocolError, HSM2ProtocolInterrupt, an unexpected "
                   "exception, the line is not JSON}; accept order / thread schedule: 6 solver variables; every client gets exactly the reply "
                   "its own outcome prescribes (its own data, {} or an error object) - never another client's -, and nothing once the "
                   "manager is going down",
            examples=[(0, dict(k0=0, k1=1, k2=0, c0=0, c1=0, c2=0, c3=0, c4=0, c5=0)), (1, dict(k0=0, k1=3, k2=0, c0=0, c1=0, c2=0, c3=0, c4=0, c5=0)),
                      (1, dict(k0=5, k1=0, k2=1, c0=2, c1=1, c2=0, c3=0, c4=0, c5=0)), (1, dict(k0=2, k1=4, k2=0, c0=1, c1=0, c2=0, c3=0, c4=0, c5=0))])
def replies_not_crossed(k0: int, k1: int, k2: int, c0: int, c1: int, c2: int, c3: int, c4: int, c5: int) -> bool:
    """
    pre: 0 <= k0 <= 5 and 0 <= k1 <= 5 and 0 <= k2 <= 5
    pre: 0 <= c0 <= 3 and 0 <= c1 <= 3 and 0 <= c2 <= 3 and 0 <= c3 <= 3 and 0 <= c4 <= 3 and 0 <= c5 <= 3
    post: _
    """
    import sim.base as sb
    n = 2 + part()

    def go():
        kinds = [Sched.split(k, 6) for k in (k0, k1, k2)[:n]]
        return _crossed(kinds, [c0, c1, c2, c3, c4, c5])
    if sb.in_crosshair():
        from crosshair.tracers import NoTracing
        with NoTracing():
            return go()
    return go()
