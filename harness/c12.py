"""C12 Concurrent clients never interleave on the device.

The REAL comm.server.TCPServer.run / _TCPServerRequestHandler / _RequestHandler and the REAL standard-library
socketserver classes they instantiate (accept loop, process_request, StreamRequestHandler set-up and tear-down)
run over a simulated socket layer: `socket` and `_ServerSelector` inside the socketserver module are replaced
by an in-memory listening socket, per-client connection sockets and a selector.  N clients (2 or 3) are
"simultaneously connected": each has sent its request line and waits for the answer.

THE SCHEDULE IS A VECTOR OF SOLVER VARIABLES.  Every point where the operating system could run something else
is a decision point: the selector's select() (which waiting connection does accept() return next / does a
request-handling thread run instead), every device exchange and every socket read / write (may another
runnable thread go first).  Threads the code under test starts are REAL threads, but they are only ever let
run one at a time, from one decision point to the next, by the harness' scheduler; the scheduler decides in
the main thread, from the next schedule variable `c<j>` (case split on a symbolic int), so CrossHair / z3
explore the tree of schedules and a counterexample is a concrete schedule that replays deterministically.

Oracle (linearisability with contiguous device blocks): there is an order of the N requests such that
the device's APDU log is exactly the concatenation of the APDU sequences of these requests served alone one
after the other on a fresh manager, AND every client's socket received exactly the reply of its own request
in that sequential run (the replies depend on the order when a request changes the device state).
"""
import io
import itertools
import os
import threading

from harness.common import obligation, part, reraise_control_flow, note, NULL_LOGGER
from harness.world import make_stack
from harness.catalog import valid_request
from sim.ledger import SimDevice

import json as real_json
import socket as real_socket
import selectors as real_selectors
import socketserver
import comm.server as server

SETTLE_SPINS = 750      # x 2 ms


class _Abort(BaseException):
    """Raised inside a request-handling thread when the harness tears the run down."""


try:
    from crosshair.util import IgnoreAttempt as _Ignore
except Exception:      # pragma: no cover
    _Ignore = BaseException


class Inconclusive(_Ignore):
    """The run cannot be judged (e.g. a forking server): under CrossHair the path is left unconfirmed (-> inconclusive),
    in a concrete run it surfaces as a harness error; never a verdict."""


class Sched:
    def __init__(self, choices):
        self.choices = list(choices)
        self.ci = 0
        self.main = threading.get_ident()
        self.cv = threading.Condition()
        self.blocked = {}          # thread ident -> label, waiting for a grant at a decision point
        self.order = {}            # thread ident -> number (order of first appearance: deterministic)
        self.granted = None
        self.baseline = set(t.ident for t in threading.enumerate())
        self.active = False
        self.aborting = False
        self.decisions = []        # (options, chosen) - for the replay notes
        self.exhausted = False
        self.max_runnable = 1
        self.elsewhere = set()

    # ---- called by any thread at a decision point
    def yield_point(self, label):
        if not self.active:
            return
        tid = threading.get_ident()
        if tid == self.main:
            self.run_others(allow_self=True)
            return
        with self.cv:
            if tid not in self.order:
                self.order[tid] = len(self.order)
            self.blocked[tid] = label
            self.cv.notify_all()
            while self.granted != tid and not self.aborting:
                self.cv.wait()
            if self.aborting:
                raise _Abort()
            self.granted = None

    # ---- main thread only
    def others_alive(self):
        return [t for t in threading.enumerate() if t.ident not in self.baseline and t.ident != self.main and t.is_alive()]

    def settle(self):
        """Wait until every thread the code under test started is parked at a decision point (or has ended)."""
        spins = 0         # (no clock: CrossHair models the time functions as nondeterministic inputs)
        with self.cv:
            while True:
                live = self.others_alive()
                loose = [t for t in live if t.ident not in self.blocked and t.ident not in self.elsewhere]
                if not loose:
                    return
                spins += 1
                if spins > SETTLE_SPINS:
                    # blocked on something that is not a decision point (a lock, Event.wait, join ...): not runnable for us
                    for t in loose:
                        self.elsewhere.add(t.ident)
                        import sys
                        import traceback
                        fr = sys._current_frames().get(t.ident)
                        note("thread not at a decision point", "".join(traceback.format_stack(fr))[-900:] if fr else "?")
                    return
                self.cv.wait(0.002)

    def runnable_workers(self):
        with self.cv:
            for tid in list(self.elsewhere):
                if tid in self.blocked:
                    self.elsewhere.discard(tid)
            return sorted(self.blocked.keys(), key=lambda t: self.order[t])

    def choose(self, options):
        self.max_runnable = max(self.max_runnable, len(options))
        if len(options) == 1:
            return options[0]
        if self.ci >= len(self.choices):
            self.exhausted = True          # beyond the schedule bound: the first option (recorded in the evidence bounds)
            pick = options[0]
        else:
            c = self.choices[self.ci]
            self.ci += 1
            pick = options[-1]
            for k in range(len(options) - 1):
                if c == k:                 # symbolic: one path per option
                    pick = options[k]
                    break
        self.decisions.append(([str(o) for o in options], str(pick)))
        return pick

    def grant(self, tid):
        with self.cv:
            del self.blocked[tid]
            self.granted = tid
            self.cv.notify_all()
        self.settle()

    def run_others(self, allow_self, extra=()):
        """Decision loop.  Returns 'self' or one of `extra` when that option is chosen; lets a worker run otherwise."""
        while True:
            self.settle()
            opts = (["self"] if allow_self else []) + list(extra) + [("thread", self.order[t]) for t in self.runnable_workers()]
            if not opts:
                if self.wait_for_elsewhere():
                    continue               # a thread that was blocked on something else has moved on
                return None
            pick = self.choose(opts)
            if pick == "self" or pick in extra:
                return pick
            tid = [t for t, n in self.order.items() if n == pick[1]][0]
            self.grant(tid)

    def wait_for_elsewhere(self):
        """Nothing is runnable at a decision point, but threads blocked on something else (a lock ...) are alive: give them
        time to reach a decision point or to end.  True iff the situation changed."""
        spins = 0
        with self.cv:
            while spins < SETTLE_SPINS:
                alive = [t.ident for t in self.others_alive()]
                if any(t in self.blocked for t in alive):
                    return True
                if not any(t in self.elsewhere for t in alive):
                    return False
                spins += 1
                self.cv.wait(0.002)
        return False

    def abort(self):
        with self.cv:
            self.aborting = True
            self.cv.notify_all()
        for t in self.others_alive():
            t.join(1.0)


# ------------------------------------------------------------------ simulated socket layer

class Net:
    """The clients and what they have sent / received."""
    def __init__(self, sched, lines):
        self.sched = sched
        self.lines = list(lines)
        self.waiting = list(range(len(lines)))     # connected, not yet accepted
        self.next_accept = None
        self.received = [b"" for _ in lines]
        self.closed = [False for _ in lines]
        self.server = None


class ConnSocket:
    def __init__(self, net, i):
        self.net = net
        self.i = i
        self.pos = 0

    # reading side (StreamRequestHandler wraps it with makefile('rb'))
    def makefile(self, mode="r", buffering=-1):
        assert "r" in mode
        sock = self

        class Raw(io.RawIOBase):
            def readable(self):
                return True

            def readinto(self, b):
                sock.net.sched.yield_point("recv-%d" % sock.i)
                data = sock.net.lines[sock.i][sock.pos:sock.pos + len(b)]
                b[:len(data)] = data
                sock.pos += len(data)
                return len(data)
        return io.BufferedReader(Raw(), buffer_size=buffering if buffering and buffering > 0 else 8192)

    # writing side (socketserver._SocketWriter)
    def sendall(self, data):
        self.net.sched.yield_point("send-%d" % self.i)
        self.net.received[self.i] += bytes(data)

    def send(self, data):
        self.sendall(data)
        return len(data)

    def shutdown(self, how):
        pass

    def close(self):
        self.net.closed[self.i] = True

    def settimeout(self, t):
        pass

    def setsockopt(self, *a):
        pass

    def fileno(self):
        return 100 + self.i


class ListenSocket:
    def __init__(self, net):
        self.net = net
        self.addr = None

    def setsockopt(self, *a):
        pass

    def bind(self, addr):
        self.addr = addr

    def getsockname(self):
        return self.addr

    def listen(self, n):
        pass

    def fileno(self):
        return 99

    def gettimeout(self):
        return None

    def close(self):
        pass

    def accept(self):
        i = self.net.next_accept
        if i is None:
            raise BlockingIOError("no connection waiting")
        self.net.next_accept = None
        return ConnSocket(self.net, i), ("10.0.0.%d" % (i + 1), 40000 + i)


class SocketModule:
    """`socket` as seen by the socketserver module."""
    def __init__(self, net):
        self._net = net

    def socket(self, family=None, type=None, *a, **k):
        return ListenSocket(self._net)

    def __getattr__(self, name):
        return getattr(real_socket, name)


class OsModule:
    """`os` as seen by the socketserver module: forking servers are beyond this harness."""
    def __getattr__(self, name):
        raise Inconclusive("socketserver used os.%s (forking server?): not modelled" % name)


def selector_class(net, on_register):
    class Selector:
        def __enter__(self):
            return self

        def __exit__(self, *a):
            return False

        def register(self, fileobj, events, data=None):
            net.server = fileobj
            on_register()
            net.sched.active = True

        def select(self, timeout=None):
            s = net.sched
            pick = s.run_others(allow_self=False, extra=[("accept", i) for i in net.waiting])
            if pick is None:
                # every client has been accepted and nothing the server started is runnable any more: stop serving
                net.sched.active = False
                net.server._BaseServer__shutdown_request = True
                return []
            net.waiting.remove(pick[1])
            net.next_accept = pick[1]
            return [(None, real_selectors.EVENT_READ)]
    return Selector


# ------------------------------------------------------------------ requests and the sequential reference

def requests_catalogue():
    sign = valid_request("sign", 0)
    sign2 = valid_request("sign", 1)
    adv = valid_request("advanceBlockchain", 0)
    return [("sign (authorized)", sign), ("blockchainState", valid_request("blockchainState")),
            ("advanceBlockchain", adv), ("signerHeartbeat", valid_request("signerHeartbeat")),
            ("getPubKey", valid_request("getPubKey")), ("sign (hash)", sign2)]


CATALOGUE = requests_catalogue()
PAIRS = [(0, 1), (0, 2), (2, 1), (3, 0), (0, 5), (4, 3)]
TRIPLES = [(0, 1, 2), (3, 0, 4), (0, 5, 2)]
SETS = PAIRS + TRIPLES
if os.environ.get("VERIF_TIER") == "thorough":
    SETS = SETS + [(2, 0, 3), (1, 2, 5), (0, 0, 1), (0, 1, 2, 3), (2, 5, 4, 0)]      # more triples (one with two equal requests), 4 clients


class _NotingLogger:
    """Swallows the server's log output, keeps what it reports as critical / error for the counterexample notes."""
    def critical(self, msg, *a):
        import traceback
        note("server log (critical)", threading.current_thread().name, str(msg)[:300], [str(x)[:300] for x in a], traceback.format_exc()[-1200:])

    error = critical

    def info(self, *a, **k):
        pass

    debug = warning = info


def line_of(req):
    return real_json.dumps(req).encode() + b"\n"


def device():
    d = SimDevice()
    d.chunk = 40
    return d


def sequential(order, reqs):
    """The requests served alone, one after the other, by a fresh manager: ([apdu list per request], [reply bytes per request])."""
    proto, dongle, world = make_stack(device(), connect=False)
    proto.initialize_device()
    apdus, replies = {}, {}
    for i in order:
        n0 = len(world.apdus())
        r = proto.handle_request(real_json.loads(line_of(reqs[i])))
        apdus[i] = [bytes(a) for a in world.apdus()[n0:]]
        replies[i] = real_json.dumps(r, sort_keys=True).encode() + b"\n"
    return apdus, replies


def serve_concurrently(reqs, choices):
    """Real TCPServer.run with all clients waiting.  Returns (device apdu log after bring-up, bytes received per client, sched)."""
    proto, dongle, world = make_stack(device(), connect=False)
    sched = Sched(choices)
    net = Net(sched, [line_of(r) for r in reqs])
    world.fault_hook = lambda k, apdu: sched.yield_point("exchange")
    saved = (socketserver.socket, socketserver._ServerSelector, socketserver.os)
    socketserver.socket = SocketModule(net)
    mark = {"n": None}

    def on_register():
        mark["n"] = len(world.apdus())       # everything before this point is the bring-up
    socketserver._ServerSelector = selector_class(net, on_register)
    socketserver.os = OsModule()
    srv = server.TCPServer("127.0.0.1", 9999, proto)
    srv.logger = _NotingLogger()
    try:
        srv.run()
    finally:
        sched.active = False
        sched.abort()
        socketserver.socket, socketserver._ServerSelector, socketserver.os = saved
    if mark["n"] is None:
        raise Inconclusive("the server never started serving")
    return [bytes(a) for a in world.apdus()[mark["n"]:]], net, sched


def judge(reqs, log, net):
    n = len(reqs)
    for order in itertools.permutations(range(n)):
        apdus, replies = sequential(order, reqs)
        flat = [a for i in order for a in apdus[i]]
        if flat == log and all(net.received[i] == replies[i] for i in range(n)):
            return True
    return False


def run(reqs, choices):
    import sim.base as sb
    sb.REAL_HEX[0] = True          # the replies are rendered to real JSON lines
    try:
        return _run(reqs, choices)
    finally:
        sb.REAL_HEX[0] = False


def _run(reqs, choices):
    try:
        log, net, sched = serve_concurrently(reqs, choices)
    except Inconclusive:
        raise
    except Exception as e:
        reraise_control_flow(e)
        import traceback
        note("serving raised", type(e).__name__, "".join(traceback.format_exception(e))[-600:])
        return False
    if sched.elsewhere:
        note("threads blocked outside decision points", len(sched.elsewhere))
    note("schedule", sched.decisions, "max runnable", sched.max_runnable, "bound exhausted", sched.exhausted)
    return judge(reqs, log, net)


KMAX = 10


@obligation(tier="quick", parts=len(SETS), timeout=300,
            part_names=lambda p: " | ".join(CATALOGUE[i][0] for i in SETS[p]),
            bounds="2 or 3 (T: up to 4) simultaneously connected clients (9 (T: 14) request sets from: authorized sign (2 variants), advanceBlockchain, "
                   "blockchainState, signerHeartbeat, getPubKey - partition); decision points: select() of the accept loop, every device "
                   "exchange, every socket read and write; schedule: 10 solver variables c0..c9, one consumed per decision point with "
                   "more than one runnable party (later ones take the first party); preemption inside other code is not modelled; "
                   "simulated sockets instead of TCP; forking servers not modelled (inconclusive)",
            examples=[(0, dict(c0=0, c1=0, c2=0, c3=0, c4=0, c5=0, c6=0, c7=0, c8=0, c9=0)),
                      (0, dict(c0=1, c1=0, c2=0, c3=0, c4=0, c5=0, c6=0, c7=0, c8=0, c9=0)),
                      (6, dict(c0=2, c1=1, c2=0, c3=0, c4=0, c5=0, c6=0, c7=0, c8=0, c9=0)),
                      (1, dict(c0=1, c1=1, c2=1, c3=1, c4=1, c5=1, c6=1, c7=1, c8=1, c9=1))])
def schedules(c0: int, c1: int, c2: int, c3: int, c4: int, c5: int, c6: int, c7: int, c8: int, c9: int) -> bool:
    """
    pre: 0 <= c0 <= 3 and 0 <= c1 <= 3 and 0 <= c2 <= 3 and 0 <= c3 <= 3 and 0 <= c4 <= 3
    pre: 0 <= c5 <= 3 and 0 <= c6 <= 3 and 0 <= c7 <= 3 and 0 <= c8 <= 3 and 0 <= c9 <= 3
    post: _
    """
    reqs = [CATALOGUE[i][1] for i in SETS[part()]]
    return run(reqs, [c0, c1, c2, c3, c4, c5, c6, c7, c8, c9])
