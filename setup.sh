#!/bin/bash
# Offline: overlay venv on /venv with crosshair-tool from the local wheelhouse.
set -e
cd "$(dirname "$0")"
exec 9>/verif/.lock
flock 9
if [ -x .venv/bin/python ] && .venv/bin/python -c "import crosshair, z3, rlp, ledgerblue" 2>/dev/null; then
  exit 0
fi
rm -rf .venv
/venv/bin/python -m venv .venv
echo "/venv/lib/python3.12/site-packages" > .venv/lib/python3.12/site-packages/_base.pth
PIP_NO_INDEX=1 .venv/bin/pip install -q --no-index --find-links /opt/veriftools/wheels crosshair-tool
.venv/bin/python -c "import crosshair, z3, rlp, ledgerblue; print('verif venv ready, z3', z3.get_version_string())"
