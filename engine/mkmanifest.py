"""Regenerates MANIFEST.json from harness/registry.py (run after adding a property)."""
import json
import os
import sys

VERIF = os.path.dirname(os.path.dirname(os.path.abspath(__file__)))
sys.path.insert(0, VERIF)
from harness.registry import PROPERTIES, NOT_APPLICABLE  # noqa: E402

ALL = ["C%02d" % i for i in range(1, 20)]
checks = []
for pid in ALL:
    if pid not in PROPERTIES:
        continue
    e = PROPERTIES[pid]
    checks.append({
        "property_id": pid,
        "quick_cmd": "./check %s --tier quick" % pid,
        "thorough_cmd": "./check %s --tier thorough" % pid,
        "evidence_file": "/verif/evidence/%s.json" % pid,
        "replay_cmd_template": "./check %s --replay {path}" % pid,
        "engine": "crosshair-z3",
        "level_claimed": {
            "category": "other",
            "text": e["level_text"],
            "design_ref": e.get("design_ref", "DESIGN.md section 4/5, " + pid),
        },
        "level_note": e["level_note"],
        "technique": e.get("technique", "bounded symbolic execution of the real Python code (CrossHair) with SMT (z3) deciding every path; counterexamples replayed concretely"),
    })
na = []
for pid in ALL:
    if pid in PROPERTIES:
        continue
    na.append({"property_id": pid, "reason": NOT_APPLICABLE.get(
        pid, "no check registered yet: the obligations for this property have not been built (see DESIGN.md for the plan); nothing is claimed")})
manifest = {
    "version": 1,
    "setup_cmd": "./setup.sh",
    "hooks": {
        "guard": "RSK_POWHSM_VERIF",
        "enable": "no hooks exist in /repo: all instrumentation is done by rebinding module-level names from the harness process (DESIGN.md 3.12)",
        "baseline_off_cmd": "cd /repo && /venv/bin/python -m pytest -ra -q -p no:cacheprovider --timeout=900 --continue-on-collection-errors",
        "source_commits": [],
        "add_only": True,
    },
    "engines": [{
        "name": "crosshair-z3",
        "path": "/verif/engine",
        "serves_properties": [c["property_id"] for c in checks],
        "kind_free_text": "symbolic execution of the repository's Python functions (CrossHair 0.0.110 API) with z3 5.1 deciding each path; obligations partitioned over 16 cores; reachability twins; concrete replay of counterexamples",
    }],
    "checks": checks,
    "not_applicable": na,
    "notes": "Exit 0 = held on everything explored (inconclusive obligations are listed in the evidence and on stdout); exit 1 = reproduced violation; exit 3 = harness error (never a VIOLATION line). Known findings: /verif/known_findings.json.",
}
with open(os.path.join(VERIF, "MANIFEST.json"), "w") as f:
    json.dump(manifest, f, indent=1)
print("MANIFEST.json: %d checks, %d not applicable" % (len(checks), len(na)))
