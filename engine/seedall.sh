#!/bin/bash
# Runs every seeded change against its property's quick check and records the outcome in meta.json (detected_by).
# usage: engine/seedall.sh [ids...]      (default: all)
cd /verif
ids="$@"; [ -z "$ids" ] && ids=$(ls seeded)
for id in $ids; do
 for v in ${VARIANTS:-a b c d}; do
  d=seeded/$id/$v
  [ -d $d ] || continue
  patch=$d/patch.diff; [ -f $d/patch_head.diff ] && patch=$d/patch_head.diff
  # SEED_WT_BASE=<dir holding one scratch worktree of /repo per property id>: run there instead of in /repo
  [ -n "${SEED_WT_BASE:-}" ] && export SEED_REPO=$SEED_WT_BASE/$id
  out=$(engine/seedtest.sh /verif/$patch $id 2>&1)
  rc=$(echo "$out" | grep -o "seedtest rc=[0-9]*" | cut -d= -f2)
  viol=$(echo "$out" | grep -c "^VIOLATION")
  first=$(echo "$out" | grep "^VIOLATION" | head -3 | sed 's/.*replay=\/verif\/replays\///' | tr '\n' ' ')
  echo "$id/$v rc=$rc violations=$viol $first"
  .venv/bin/python - "$d/meta.json" "$rc" "$viol" "$first" "$(basename $patch)" <<'PY'
import json, sys
p, rc, viol, first, patch = sys.argv[1:6]
m = json.load(open(p))
m["detected_by"] = {"check": "./check %s --tier quick" % m["property"], "exit_code": int(rc or -1), "violation_lines": int(viol),
                    "replays": first.split(), "patch_applied": patch,
                    "verdict": "caught" if rc == "1" else ("not applicable at HEAD / not caught" if rc == "0" else "harness error or patch does not apply")}
json.dump(m, open(p, "w"), indent=1)
PY
 done
done
