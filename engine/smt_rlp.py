"""Hand translation (AST -> z3 bit-vectors) of ledger.block_utils.rlp_first_element_list_payload_length.

CrossHair enumerates values on `<<` / `|` over symbolic ints, so this kernel is decided directly:
the function's source is read from /repo on every run, interpreted symbolically by the small
evaluator below (first byte concrete - all 256 values -, the following 8 bytes 80-bit bit-vector
variables constrained to 0..255, loop bounds concrete once the first byte is), and for every first
byte z3 is asked for bytes on which the result differs from the RLP definition
   0xc0..0xf7 -> b-0xc0 ;  0xf8..0xff -> big-endian value of the next b-0xf7 bytes ;  else error.
unsat for all 256 first bytes = holds for every byte string of >= 9 bytes (shorter strings: IndexError
paths are not modelled and are outside the claim).  A model is replayed against the real function.
"""
import ast
import inspect
import json
import os
import sys
import time

VERIF = os.path.dirname(os.path.dirname(os.path.abspath(__file__)))
sys.path.insert(0, VERIF)
import harness.common  # noqa: E402,F401  (sys.path for /repo/middleware)
import z3  # noqa: E402

W = 80


class Raised(Exception):
    pass


class Returned(Exception):
    def __init__(self, v):
        self.v = v


class Interp:
    def __init__(self, bs_vars):
        self.env = {}
        self.bs = bs_vars

    def ev(self, n):
        if isinstance(n, ast.Constant):
            return n.value
        if isinstance(n, ast.Name):
            return self.env[n.id]
        if isinstance(n, ast.Subscript):
            assert isinstance(n.value, ast.Name) and n.value.id == "bs"
            if isinstance(n.slice, ast.Slice):
                lo = self.ev(n.slice.lower) if n.slice.lower is not None else None
                hi = self.ev(n.slice.upper) if n.slice.upper is not None else None
                assert n.slice.step is None and all(x is None or isinstance(x, int) for x in (lo, hi)), "slice bounds must be concrete"
                if (hi if hi is not None else len(self.bs)) > len(self.bs):
                    raise NotImplementedError("slice beyond the modelled prefix")
                return list(self.bs[lo:hi])
            idx = self.ev(n.slice)
            assert isinstance(idx, int)
            return self.bs[idx]
        if isinstance(n, ast.BinOp):
            a, b = self.ev(n.left), self.ev(n.right)
            if isinstance(n.op, ast.Sub):
                return a - b
            if isinstance(n.op, ast.Add):
                return a + b
            if isinstance(n.op, ast.LShift):
                return self.bv(a) << self.bv(b) if not (isinstance(a, int) and isinstance(b, int)) else a << b
            if isinstance(n.op, ast.BitOr):
                return self.bv(a) | self.bv(b) if not (isinstance(a, int) and isinstance(b, int)) else a | b
            raise NotImplementedError(ast.dump(n.op))
        if isinstance(n, ast.BoolOp) and isinstance(n.op, ast.And):
            return all(self.ev(v) for v in n.values)
        if isinstance(n, ast.Compare):
            left = self.ev(n.left)
            ok = True
            for op, c in zip(n.ops, n.comparators):
                right = self.ev(c)
                assert isinstance(left, int) and isinstance(right, int), "conditions must be concrete"
                if isinstance(op, ast.GtE):
                    ok = ok and left >= right
                elif isinstance(op, ast.LtE):
                    ok = ok and left <= right
                elif isinstance(op, ast.Gt):
                    ok = ok and left > right
                elif isinstance(op, ast.Lt):
                    ok = ok and left < right
                elif isinstance(op, ast.Eq):
                    ok = ok and left == right
                else:
                    raise NotImplementedError(ast.dump(op))
                left = right
            return ok
        if isinstance(n, ast.Call) and isinstance(n.func, ast.Name) and n.func.id == "range":
            return range(*[self.ev(a) for a in n.args])
        if isinstance(n, ast.Call) and isinstance(n.func, ast.Name) and n.func.id == "len":
            v = self.ev(n.args[0])
            assert isinstance(v, list)
            return len(v)
        if isinstance(n, ast.Call) and isinstance(n.func, ast.Attribute) and n.func.attr == "from_bytes" \
                and isinstance(n.func.value, ast.Name) and n.func.value.id == "int":
            # int.from_bytes(<slice of bs>, "big" | "little", signed=False)
            data = self.ev(n.args[0])
            kw = {k.arg: self.ev(k.value) for k in n.keywords}
            order = self.ev(n.args[1]) if len(n.args) > 1 else kw.get("byteorder", "big")
            assert isinstance(data, list) and order in ("big", "little") and not kw.get("signed", False)
            acc = z3.BitVecVal(0, W)
            for t in (data if order == "big" else list(reversed(data))):
                acc = acc * 256 + self.bv(t)
            return acc
        raise NotImplementedError(ast.dump(n))

    @staticmethod
    def bv(x):
        return z3.BitVecVal(x, W) if isinstance(x, int) else x

    def run(self, stmts):
        for s in stmts:
            if isinstance(s, ast.Assign):
                assert len(s.targets) == 1 and isinstance(s.targets[0], ast.Name)
                self.env[s.targets[0].id] = self.ev(s.value)
            elif isinstance(s, ast.If):
                self.run(s.body if self.ev(s.test) else s.orelse)
            elif isinstance(s, ast.For):
                for i in self.ev(s.iter):
                    self.env[s.target.id] = i
                    self.run(s.body)
            elif isinstance(s, ast.Raise):
                raise Raised()
            elif isinstance(s, ast.Return):
                raise Returned(self.ev(s.value))
            elif isinstance(s, ast.Expr):
                pass
            else:
                raise NotImplementedError(ast.dump(s))


def main():
    import ledger.block_utils as bu
    src = inspect.getsource(bu.rlp_first_element_list_payload_length)
    fn = ast.parse(src).body[0]
    t0 = time.time()
    queries = 0
    solver_s = 0.0
    cex = None
    for b0 in range(256):
        rest = [z3.BitVec("b%d" % i, W) for i in range(1, 9)]
        bs = [b0] + rest
        it = Interp(bs)
        it.env["bs"] = None
        try:
            it.run(fn.body)
            got = "none"
        except Raised:
            got = "error"
        except Returned as r:
            got = r.v
        except (NotImplementedError, AssertionError, KeyError, TypeError) as e:
            # the function's current source uses a construct this translator does not encode: no verdict from this query
            # (the CrossHair obligations of the property still run the function itself)
            print("@@RESULT@@" + json.dumps({"name": "rlp_payload_smt", "status": "unknown", "paths": b0,
                                             "message": "source not translatable at b0=%d: %s %s" % (b0, type(e).__name__, str(e)[:200])}))
            return
        # RLP definition
        if 0xc0 <= b0 <= 0xf7:
            want = b0 - 0xc0
        elif b0 >= 0xf8:
            want = z3.BitVecVal(0, W)
            for i in range(b0 - 0xf7):
                want = want * 256 + rest[i]
        else:
            want = "error"
        if isinstance(got, str) or isinstance(want, str):
            if got != want:
                cex = {"b0": b0, "rest": [0] * 8, "got": str(got), "want": str(want)}
                break
            continue
        s = z3.Solver()
        for v in rest:
            s.add(z3.ULE(v, 255))
        s.add(Interp.bv(got) != Interp.bv(want))
        t = time.time()
        r = s.check()
        solver_s += time.time() - t
        queries += 1
        if str(r) == "sat":
            m = s.model()
            cex = {"b0": b0, "rest": [m.eval(v, model_completion=True).as_long() for v in rest]}
            break
        if str(r) != "unsat":
            print("@@RESULT@@" + json.dumps({"name": "rlp_payload_smt", "status": "unknown", "message": "z3: %s at b0=%d" % (r, b0)}))
            return
    out = {"name": "rlp_payload_smt", "queries": queries, "solver_s": round(solver_s, 3), "wall_s": round(time.time() - t0, 2),
           "paths": 256,
           "bounds": "first byte: all 256 values (concrete per query); next 8 bytes: bit-vector variables 0..255; byte strings shorter "
                     "than 9 bytes (IndexError paths) outside the claim",
           "functions": ["ledger/block_utils.py:rlp_first_element_list_payload_length"]}
    if cex is None:
        out["status"] = "confirmed"
    else:
        out["status"] = "refuted"
        out["counterexample"] = cex
        out["reproduced"] = replay(cex)
    print("@@RESULT@@" + json.dumps(out))


def replay(cex):
    """True iff the real function disagrees with the RLP definition on the model's bytes."""
    import ledger.block_utils as bu
    bs = bytes([cex["b0"]] + cex["rest"])
    try:
        got = bu.rlp_first_element_list_payload_length(bs)
    except ValueError:
        got = "error"
    b0 = bs[0]
    if 0xc0 <= b0 <= 0xf7:
        want = b0 - 0xc0
    elif b0 >= 0xf8:
        want = int.from_bytes(bs[1:1 + b0 - 0xf7], "big")
    else:
        want = "error"
    return got != want


if __name__ == "__main__":
    if len(sys.argv) > 2 and sys.argv[1] == "--replay":
        bad = replay(json.loads(sys.argv[2]))
        print("@@RESULT@@" + json.dumps({"result": not bad, "exception": None}))
    else:
        main()
