"""Runs ONE (obligation, partition) and prints one JSON object on the last stdout line.

Modes
  sym      reachability twin (post-condition False must be refuted) and then the real
           obligation, both through CrossHair's Python API (z3 decides every path).
  concrete run the obligation's catalogue examples concretely (harness-rot guard) and
           record which repository functions were executed.
  replay   run the obligation concretely on the given arguments with the formatting
           stubs removed (VERIF_REPLAY=1 is set by the scheduler).
"""
import argparse
import importlib
import json
import os
import sys
import time
import traceback

HERE = os.path.dirname(os.path.abspath(__file__))
VERIF = os.path.dirname(HERE)
sys.path.insert(0, VERIF)
sys.setrecursionlimit(10000)


def jsonable(v):
    if isinstance(v, (bool, int, str, type(None), float)):
        return v
    if isinstance(v, bytes):
        return {"__bytes__": v.hex()}
    if isinstance(v, (list, tuple)):
        return [jsonable(x) for x in v]
    if isinstance(v, dict):
        return {str(k): jsonable(x) for k, x in v.items()}
    return repr(v)


def unjson(v):
    if isinstance(v, dict) and "__bytes__" in v:
        return bytes.fromhex(v["__bytes__"])
    if isinstance(v, list):
        return [unjson(x) for x in v]
    if isinstance(v, dict):
        return {k: unjson(x) for k, x in v.items()}
    return v


def find_ob(modname, fnname):
    mod = importlib.import_module(modname)
    for ob in getattr(mod, "OBLIGATIONS", []):
        if ob.name == fnname:
            return mod, ob
    raise SystemExit("no obligation %s in %s" % (fnname, modname))


def run_sym(modname, fnname, timeout, twin_only=False):
    import z3
    from dataclasses import replace
    import crosshair.core_and_libs  # noqa: F401  (registers library models + opcode patches)
    import crosshair.core as core
    from crosshair.core import analyze_function, AnalysisOptionSet
    from crosshair.options import AnalysisKind
    from crosshair.statespace import VerificationStatus, MessageType

    mod, ob = find_ob(modname, fnname)
    _patch_crosshair()

    stats = {"queries": 0, "solver_s": 0.0}
    orig_check = z3.Solver.check

    def timed_check(self, *a, **k):
        t = time.perf_counter()
        try:
            return orig_check(self, *a, **k)
        finally:
            stats["queries"] += 1
            stats["solver_s"] += time.perf_counter() - t
    z3.Solver.check = timed_check

    captured = {}
    orig_mcm = core.make_counterexample_message

    def mcm(conditions, args, return_val=None):
        msg = orig_mcm(conditions, args, return_val)
        try:
            from crosshair.tracers import NoTracing
            with NoTracing():
                captured["args"] = jsonable(dict(core.deep_realize(args).arguments))
        except BaseException as e:  # noqa
            captured["args_error"] = repr(e)
        return msg
    core.make_counterexample_message = mcm

    def analyse(twin, tmo):
        import collections
        opts = AnalysisOptionSet(
            analysis_kind=[AnalysisKind.PEP316],
            per_condition_timeout=float(tmo),
            per_path_timeout=float(min(60.0, max(10.0, tmo / 2))),
            max_uninteresting_iterations=sys.maxsize,
            report_all=True,
        )
        checkables = analyze_function(ob.fn, opts)
        if len(checkables) != 1 or not hasattr(checkables[0], "conditions"):
            msgs = []
            for c in checkables:
                msgs += [m.message for m in c.analyze()]
            return {"status": "harness_error", "message": "conditions: %r" % msgs}
        chk = checkables[0]
        if twin:
            (post,) = chk.conditions.post
            chk = replace(chk, conditions=replace(
                chk.conditions,
                post=[replace(post, evaluate=lambda lcls: False, expr_source="False")]))
        chk.options.stats = collections.Counter()
        captured.clear()
        q0, s0 = stats["queries"], stats["solver_s"]
        t0 = time.perf_counter()
        from crosshair.core import analyze_calltree
        from crosshair.condition_parser import condition_parser
        from time import process_time
        chk.options.deadline = process_time() + chk.options.per_condition_timeout
        with condition_parser(chk.options.analysis_kind):
            analysis = analyze_calltree(chk.options, chk.conditions)
        wall = time.perf_counter() - t0
        vs = analysis.verification_status
        msgs = list(analysis.messages)
        res = {
            "paths": int(chk.options.stats.get("num_paths", 0)),
            "confirmed_paths": int(analysis.num_confirmed_paths),
            "wall_s": round(wall, 3),
            "queries": stats["queries"] - q0,
            "solver_s": round(stats["solver_s"] - s0, 3),
        }
        if any(m.state == MessageType.PRE_UNSAT for m in msgs):
            res["status"] = "unknown"
            res["message"] = "Unable to meet precondition: " + "; ".join(m.message for m in msgs)
        elif vs == VerificationStatus.CONFIRMED:
            res["status"] = "confirmed"
        elif vs == VerificationStatus.REFUTED and any("NotDeterministic" in (m.message or "") for m in msgs):
            # CrossHair saw two different executions for the same decisions (harness or library state leaking between
            # paths): no verdict, never a counterexample
            res["status"] = "unknown"
            res["message"] = "NotDeterministic reported by CrossHair: " + "; ".join(m.message for m in msgs)[:300]
        elif vs == VerificationStatus.REFUTED:
            res["status"] = "refuted"
            res["message"] = "; ".join(m.message for m in msgs)[:2000]
            res["kind"] = ",".join(sorted(set(m.state.name for m in msgs)))
            if "args" in captured:
                res["cex_args"] = captured["args"]
            try:
                from harness.common import NOTES
                res["notes"] = list(NOTES)
            except Exception:
                pass
            tbs = [m.traceback for m in msgs if m.traceback]
            if tbs:
                res["traceback"] = tbs[0][-1500:]
        else:
            res["status"] = "unknown"
            res["message"] = "Not confirmed (time-out or incomplete path)"
        return res

    out = {"module": modname, "obligation": fnname, "part": int(os.environ.get("VERIF_PART", "0"))}
    twin = analyse(True, min(60.0, timeout))
    out["twin"] = twin
    if twin.get("status") != "refuted" or twin_only:
        out["status"] = "twin_failed" if twin.get("status") != "refuted" else "twin_ok"
        return out
    main = analyse(False, timeout)
    out.update(main)
    return out


def _patch_crosshair():
    """Work-around for a CrossHair 0.0.110 defect: a dict literal with more than 17 entries whose keys are
    Enum members is built with MAP_ADD + DICT_UPDATE; MapAddInterceptor de-optimises the dict into its own
    SimpleDict because an Enum member is not in its list of atomic types, and the interpreter's DICT_UPDATE
    then fails with SystemError.  Enum members are concrete hashable objects: let the interpreter handle them."""
    import enum
    import crosshair.opcode_intercept as oi
    from crosshair.tracers import frame_stack_read
    if getattr(oi.MapAddInterceptor, "_verif_patched", False):
        return
    orig = oi.MapAddInterceptor.trace_op

    def trace_op(self, frame, codeobj, codenum):
        key = frame_stack_read(frame, -2)
        if isinstance(key, enum.Enum):
            return
        return orig(self, frame, codeobj, codenum)
    oi.MapAddInterceptor.trace_op = trace_op
    oi.MapAddInterceptor._verif_patched = True


def trace_functions(fn, kwargs, repo_mw):
    seen = set()

    def prof(frame, event, arg):
        if event == "call":
            co = frame.f_code
            f = co.co_filename
            if f.startswith(repo_mw):
                seen.add("%s:%s" % (f[len(repo_mw) + 1:], co.co_qualname))
    sys.setprofile(prof)
    try:
        r = fn(**kwargs)
    finally:
        sys.setprofile(None)
    return r, seen


def run_concrete(modname, fnname):
    mod, ob = find_ob(modname, fnname)
    from harness.common import MIDDLEWARE
    results = []
    funcs = set()
    ok = True
    for (p, kwargs) in ob.examples:
        os.environ["VERIF_PART"] = str(p)
        try:
            r, seen = trace_functions(ob.fn, dict(kwargs), MIDDLEWARE)
            funcs |= seen
            r = bool(r)
        except Exception as e:  # noqa
            r = "exception: %r\n%s" % (e, traceback.format_exc()[-1500:])
        results.append({"part": p, "args": jsonable(kwargs), "result": r})
        if r is not True:
            ok = False
    return {"module": modname, "obligation": fnname, "status": "ok" if ok else "example_failed",
            "examples": results, "functions": sorted(funcs)}


def run_replay(modname, fnname, args):
    mod, ob = find_ob(modname, fnname)
    try:
        r = ob.fn(**unjson(args))
        return {"module": modname, "obligation": fnname, "result": bool(r), "exception": None}
    except Exception as e:  # noqa
        return {"module": modname, "obligation": fnname, "result": False,
                "exception": "%r" % (e,), "traceback": traceback.format_exc()[-2000:]}


def main():
    ap = argparse.ArgumentParser()
    ap.add_argument("--module", required=True)
    ap.add_argument("--fn", required=True)
    ap.add_argument("--mode", default="sym")
    ap.add_argument("--timeout", type=float, default=60)
    ap.add_argument("--args", default="{}")
    a = ap.parse_args()
    try:
        if a.mode == "sym":
            out = run_sym(a.module, a.fn, a.timeout)
        elif a.mode == "twin":
            out = run_sym(a.module, a.fn, a.timeout, twin_only=True)
        elif a.mode == "concrete":
            out = run_concrete(a.module, a.fn)
        elif a.mode == "replay":
            out = run_replay(a.module, a.fn, json.loads(a.args))
        else:
            raise SystemExit("bad mode")
    except SystemExit:
        raise
    except BaseException as e:  # noqa
        out = {"module": a.module, "obligation": a.fn, "status": "harness_error",
               "message": "%r" % (e,), "traceback": traceback.format_exc()[-3000:]}
    sys.stdout.write("\n@@RESULT@@" + json.dumps(out) + "\n")
    sys.stdout.flush()


if __name__ == "__main__":
    main()
