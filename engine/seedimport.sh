#!/bin/bash
# Confirms a sub-agent's seeded change in its scratch worktree and imports it into /verif/seeded/<id>/<variant>.
# usage: engine/seedimport.sh <id> <srcdir> <worktree> <variant>
# (demo must exit 0 on the clean worktree and != 0 with the patch; pinned suite must still say "468 passed")
set -u
id=$1; src=$2; wt=$3; v=$4
dst=/verif/seeded/$id/$v
git -C $wt checkout -q -- . ; git -C $wt clean -fdq
base=$(cd $src && timeout 900 /venv/bin/python demo.py $wt/middleware >/dev/null 2>&1; echo $?)
git -C $wt apply $src/patch.diff || { echo "$id/$v: patch does not apply"; exit 2; }
mut=$(cd $src && timeout 900 /venv/bin/python demo.py $wt/middleware >/dev/null 2>&1; echo $?)
suite=$(cd $wt && /venv/bin/python -m pytest -q -p no:cacheprovider --timeout=900 --continue-on-collection-errors 2>&1 | tail -1)
git -C $wt checkout -q -- . ; git -C $wt clean -fdq
echo "$id/$v base=$base mut=$mut suite=$suite"
case "$suite" in *"468 passed"*) ;; *) echo "$id/$v: suite differs"; exit 2;; esac
[ "$base" = 0 ] && [ "$mut" != 0 ] || { echo "$id/$v: demo does not discriminate"; exit 2; }
mkdir -p $dst
cp $src/patch.diff $src/demo.py $src/notes.md $dst/
[ -d $src/../common ] && cp -r $src/../common $dst/ 2>/dev/null
/venv/bin/python - "$dst" "$id" "$v" "$base" "$mut" "$suite" "$wt" <<'PY'
import json, sys
dst, pid, v, base, mut, suite, wt = sys.argv[1:8]
notes = open(dst + "/notes.md").read()
first = next((ln.strip("# ").strip() for ln in notes.splitlines() if ln.strip()), "")
m = {"property": pid, "variant": v, "breaks": first[:300], "needs_to_manifest": notes[:1200],
     "confirmed": {"how": "patch applied with git apply to a scratch worktree (%s) of /repo HEAD; demo.py run before and after; pinned test suite run with the patch" % wt,
                   "demo_exit_unchanged_tree": int(base), "demo_exit_with_patch": int(mut), "test_suite_with_patch": suite.strip()},
     "written_by": "independent sub-agent given only the property text and its own scratch worktree (third wave, with an angle hint)"}
json.dump(m, open(dst + "/meta.json", "w"), indent=1)
PY
