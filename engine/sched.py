"""Check driver: ./check <property> --tier quick|thorough   |   ./check <property> --replay <file>

Runs (1) self-validation (examples of every obligation concretely, shim samples),
(2) the known-finding witnesses, (3) every (obligation, partition) of the tier through
engine/runner.py (CrossHair + z3) on up to 16 cores, (4) concrete replay of every
counterexample, and writes evidence/<id>.json.

Exit codes: 0 property held on everything explored (inconclusive obligations are listed
in the evidence), 1 reproduced violation (VIOLATION line), 3 harness error.
"""
import argparse
import concurrent.futures as cf
import importlib
import json
import os
import subprocess
import sys
import time

HERE = os.path.dirname(os.path.abspath(__file__))
VERIF = os.path.dirname(HERE)
sys.path.insert(0, VERIF)
PY = os.path.join(VERIF, ".venv", "bin", "python")
RUNNER = os.path.join(HERE, "runner.py")
NCPU = int(os.environ.get("VERIF_JOBS", "16"))


def call_runner(module, fn, mode, part=0, timeout=60.0, args=None, env_extra=None, hard=None):
    env = dict(os.environ)
    env["VERIF_PART"] = str(part)
    env["PYTHONHASHSEED"] = "0"
    env["PYTHONDONTWRITEBYTECODE"] = "1"
    if env_extra:
        env.update(env_extra)
    cmd = [PY, RUNNER, "--module", module, "--fn", fn, "--mode", mode, "--timeout", str(timeout)]
    if args is not None:
        cmd += ["--args", json.dumps(args)]
    hard = hard or (timeout * 1.5 + 90)
    t0 = time.time()
    try:
        p = subprocess.run(cmd, env=env, cwd=VERIF, capture_output=True, text=True, timeout=hard)
        out = p.stdout
        for line in reversed(out.splitlines()):
            if line.startswith("@@RESULT@@"):
                r = json.loads(line[len("@@RESULT@@"):])
                r["proc_wall_s"] = round(time.time() - t0, 2)
                return r
        return {"status": "harness_error", "module": module, "obligation": fn, "part": part,
                "message": "no result line; rc=%s; stderr tail: %s" % (p.returncode, p.stderr[-1500:])}
    except subprocess.TimeoutExpired:
        return {"status": "unknown", "module": module, "obligation": fn, "part": part,
                "message": "killed at hard time-out %.0fs" % hard, "paths": 0, "confirmed_paths": 0,
                "wall_s": hard, "queries": 0, "solver_s": 0.0, "twin": {"status": "not_reached"}}


def load_obligations(prop):
    from harness.registry import PROPERTIES
    entry = PROPERTIES[prop]
    obs = []
    for modname in entry["modules"]:
        mod = importlib.import_module(modname)
        for ob in getattr(mod, "OBLIGATIONS", []):
            if getattr(ob, "props", None) and prop not in ob.props:
                continue
            obs.append((modname, ob))
    return entry, obs


def nparts(ob, tier):
    return ob.parts(tier) if callable(ob.parts) else ob.parts


def findings_for(prop):
    try:
        with open(os.path.join(VERIF, "known_findings.json")) as f:
            return [x for x in json.load(f)["findings"] if x.get("property") == prop]
    except FileNotFoundError:
        return []


def main():
    ap = argparse.ArgumentParser()
    ap.add_argument("prop")
    ap.add_argument("--tier", default=os.environ.get("VERIF_TIER", "quick"))
    ap.add_argument("--replay", default=None)
    ap.add_argument("--only", default=None, help="comma list of obligation names (debug)")
    ap.add_argument("--no-evidence", action="store_true")
    a = ap.parse_args()
    prop, tier = a.prop, a.tier
    seed = int(os.environ.get("VERIF_SEED", "0") or 0)
    os.environ["VERIF_TIER"] = tier
    t_start = time.time()

    if a.replay:
        with open(a.replay) as f:
            rp = json.load(f)
        if str(rp.get("module", "")).startswith("smt:"):
            pr = subprocess.run([PY, os.path.join(VERIF, rp["module"][4:]), "--replay", json.dumps(rp["args"])],
                                cwd=VERIF, capture_output=True, text=True)
            print(pr.stdout[-2000:])
            ok = '"result": true' in pr.stdout
            if ok:
                print("replay: holds on this input (not reproduced)")
                sys.exit(0)
            print("VIOLATION property=%s replay=%s" % (prop, a.replay))
            sys.exit(1)
        r = call_runner(rp["module"], rp["obligation"], "replay", part=rp.get("part", 0),
                        args=rp["args"], env_extra={"VERIF_REPLAY": "1", **rp.get("env", {})})
        print(json.dumps(r, indent=1))
        if r.get("result") is True:
            print("replay: obligation holds on this input (not reproduced)")
            sys.exit(0)
        print("VIOLATION property=%s replay=%s" % (prop, a.replay))
        sys.exit(1)

    entry, obs = load_obligations(prop)
    import glob
    for old in glob.glob(os.path.join(VERIF, "replays", "%s_*.json" % prop)):
        os.remove(old)      # replay files are rewritten by every run
    if a.only:
        names = set(a.only.split(","))
        obs = [(m, o) for (m, o) in obs if o.name in names]
    harness_errors = []
    violations = []

    # ---- (1) self-validation: examples, concretely, stubs as in the symbolic run
    functions = set()
    ex_jobs = [(m, o) for (m, o) in obs if o.examples and (tier == "thorough" or o.tier == "quick")]
    n_examples = 0
    with cf.ThreadPoolExecutor(NCPU) as ex:
        futs = {ex.submit(call_runner, m, o.name, "concrete", 0, 120): (m, o) for (m, o) in ex_jobs}
        for fu in cf.as_completed(futs):
            m, o = futs[fu]
            r = fu.result()
            functions |= set(r.get("functions", []))
            n_examples += len(r.get("examples", []))
            if r.get("status") != "ok":
                # a catalogue example that fails: replay it against the real code (stubs removed);
                # reproduced => the tree violates the property on this very input
                reproduced = False
                for exm in r.get("examples", []):
                    if exm.get("result") is True:
                        continue
                    rr = call_runner(m, o.name, "replay", part=exm["part"], args=exm["args"],
                                     env_extra={"VERIF_REPLAY": "1"})
                    if rr.get("result") is not True and "exception" in rr:
                        os.makedirs(os.path.join(VERIF, "replays"), exist_ok=True)
                        path = os.path.join(VERIF, "replays", "%s_%s_p%s_example%d.json" % (
                            prop, o.name, exm["part"], r.get("examples", []).index(exm)))
                        with open(path, "w") as f:
                            json.dump({"property": prop, "module": m, "obligation": o.name, "part": exm["part"],
                                       "args": exm["args"], "message": "catalogue example fails",
                                       "replay_exception": rr.get("exception")}, f, indent=1)
                        violations.append(path)
                        reproduced = True
                if not reproduced:
                    harness_errors.append("self-validation failed for %s.%s: %s" % (
                        m, o.name, json.dumps(r.get("examples", r))[:1500]))
    for selfcheck in entry.get("selfchecks", []):
        p = subprocess.run([PY, os.path.join(VERIF, selfcheck)], cwd=VERIF, capture_output=True, text=True)
        if p.returncode != 0:
            harness_errors.append("selfcheck %s failed: %s" % (selfcheck, (p.stdout + p.stderr)[-1500:]))

    # ---- (2) known findings: replay every listed witness against the current tree
    kf_lines = []
    open_ids = []
    kf_replayed = []
    for f in findings_for(prop):
        if f.get("status") != "open":
            continue
        r = call_runner(f["module"], f["obligation"], "replay", part=f.get("part", 0), args=f["witness"],
                        env_extra={"VERIF_REPLAY": "1", "VERIF_NO_CARVE": "1"})
        still = r.get("result") is not True
        kf_replayed.append({"id": f["id"], "still_fails": still, "exception": r.get("exception")})
        if still:
            open_ids.append(f["id"])
            kf_lines.append("KNOWN-FINDING: property=%s %s" % (prop, f["what"]))
    os.environ["VERIF_OPEN_FINDINGS"] = ",".join(open_ids)

    # ---- (3) symbolic runs
    jobs = []
    for (m, o) in obs:
        if tier == "quick" and o.tier != "quick":
            continue
        tmo = o.timeout if tier == "quick" else o.thorough_timeout
        for p in range(nparts(o, tier)):
            jobs.append((m, o, p, tmo))
    # longest first
    jobs.sort(key=lambda j: -j[3])
    results = []
    if not harness_errors and not violations:
        with cf.ThreadPoolExecutor(NCPU) as ex:
            futs = {ex.submit(call_runner, m, o.name, "sym", p, tmo): (m, o, p, tmo) for (m, o, p, tmo) in jobs}
            for fu in cf.as_completed(futs):
                m, o, p, tmo = futs[fu]
                r = fu.result()
                r.setdefault("module", m)
                r.setdefault("obligation", o.name)
                r["part"] = p
                r["bounds"] = o.bounds
                if o.part_names:
                    try:
                        r["part_name"] = o.part_names[p] if not callable(o.part_names) else o.part_names(p)
                    except Exception:
                        pass
                results.append(r)

    # ---- (3b) kernels translated to SMT directly (engine/smt_*.py), regenerated from /repo's source on every run
    for script in entry.get("smt", []):
        if harness_errors or violations:
            break
        pr = subprocess.run([PY, os.path.join(VERIF, script)], cwd=VERIF, capture_output=True, text=True, timeout=900)
        r = None
        for line in reversed(pr.stdout.splitlines()):
            if line.startswith("@@RESULT@@"):
                r = json.loads(line[len("@@RESULT@@"):])
                break
        if r is None:
            harness_errors.append("smt script %s gave no result: %s" % (script, (pr.stdout + pr.stderr)[-1200:]))
            continue
        r.update({"module": "smt:" + script, "obligation": r.get("name"), "part": 0, "twin": {"status": "n/a (direct SMT query)"},
                  "confirmed_paths": r.get("paths", 0) if r.get("status") == "confirmed" else 0})
        functions |= set(r.get("functions", []))
        if r.get("status") == "refuted":
            if r.get("reproduced"):
                os.makedirs(os.path.join(VERIF, "replays"), exist_ok=True)
                path = os.path.join(VERIF, "replays", "%s_%s.json" % (prop, r.get("name")))
                with open(path, "w") as f:
                    json.dump({"property": prop, "module": "smt:" + script, "obligation": r.get("name"), "part": 0,
                               "args": r.get("counterexample")}, f, indent=1)
                violations.append(path)
                r["status"] = "refuted_reported"
            else:
                harness_errors.append("SMT counterexample did not reproduce on the real function: %s" % json.dumps(r)[:800])
        results.append(r)

    # ---- (4) replay counterexamples
    os.makedirs(os.path.join(VERIF, "replays"), exist_ok=True)
    for r in results:
        st = r.get("status")
        if st in ("harness_error", "twin_failed"):
            harness_errors.append("%s.%s part %s: %s %s" % (
                r.get("module"), r.get("obligation"), r.get("part"), st,
                json.dumps(r.get("twin") if st == "twin_failed" else r.get("message"))[:1500]
                + (r.get("traceback") or "")[-1200:]))
        elif st == "refuted":
            if "cex_args" not in r:
                harness_errors.append("refuted without counterexample arguments: %s" % json.dumps(r)[:1500])
                continue
            rr = call_runner(r["module"], r["obligation"], "replay", part=r["part"], args=r["cex_args"],
                             env_extra={"VERIF_REPLAY": "1"})
            r["replay"] = rr
            if rr.get("result") is True:
                harness_errors.append("counterexample did not reproduce concretely (encoding/stub wrong): %s.%s part %s args %s"
                                      % (r["module"], r["obligation"], r["part"], json.dumps(r["cex_args"])[:800]))
            else:
                path = os.path.join(VERIF, "replays", "%s_%s_p%s.json" % (prop, r["obligation"], r["part"]))
                with open(path, "w") as f:
                    json.dump({"property": prop, "module": r["module"], "obligation": r["obligation"],
                               "part": r["part"], "args": r["cex_args"], "message": r.get("message"),
                               "replay_exception": rr.get("exception")}, f, indent=1)
                violations.append(path)

    # ---- (5) evidence
    n_ob = len(results)
    confirmed = [r for r in results if r.get("status") == "confirmed"]
    unknown = [r for r in results if r.get("status") == "unknown"]
    paths = sum(int(r.get("paths", 0)) for r in results)
    wall = time.time() - t_start
    samples = []
    for r in sorted(results, key=lambda r: (r.get("obligation"), r.get("part"))):
        s = {k: r.get(k) for k in ("obligation", "part", "part_name", "status", "paths", "confirmed_paths",
                                    "wall_s", "queries", "solver_s", "bounds") if r.get(k) is not None}
        if r.get("status") in ("refuted", "unknown"):
            s["message"] = (r.get("message") or "")[:600]
        if r.get("cex_args") is not None:
            s["counterexample"] = r["cex_args"]
        s["twin"] = (r.get("twin") or {}).get("status")
        samples.append(s)
    evidence = {
        "property_id": prop,
        "tier": tier,
        "seed": seed,
        "level": "other",
        "coverage": {
            "explanation": (
                "Bounded symbolic execution of the real /repo/middleware code (CrossHair 0.0.110, z3 "
                "%s): each obligation = harness function whose typed parameters are solver variables; "
                "'confirmed' = the path tree was exhausted and z3 proved the oracle assertion on every "
                "path for all values within the stated bounds; 'unknown' = not exhausted within the "
                "time budget (inconclusive, NOT counted as discharged). " % _z3v()
                + entry.get("explanation", "")),
            "obligations": n_ob,
            "discharged": len(confirmed),
            "inconclusive": len(unknown),
            "refuted": len([r for r in results if r.get("status") in ("refuted", "refuted_reported")]),
            "evaluations": paths,
            "distinct_nontrivial": len([r for r in confirmed if int(r.get("confirmed_paths", 0)) >= 2]),
            "rule": "evaluations = symbolic execution paths explored by CrossHair over all (obligation, partition) "
                    "pairs; distinct_nontrivial = pairs whose path tree was exhausted (confirmed) with >= 2 paths",
            "exhaustive": bool(n_ob) and len(confirmed) == n_ob,
            "queries": sum(int(r.get("queries", 0)) for r in results),
            "solver_time_s": round(sum(float(r.get("solver_s", 0)) for r in results), 2),
            "cpu_wall_sum_s": round(sum(float(r.get("wall_s", 0)) for r in results), 1),
            "functions_encoded": sorted(functions),
            "concrete_examples_run": n_examples,
            "twins_ok": len([r for r in results if (r.get("twin") or {}).get("status") == "refuted"]),
            "known_findings_replayed": kf_replayed,
            "samples": samples,
            "trusted_base": ["CrossHair 0.0.110 model of Python", "z3", "harness stubs and simulators (see assumptions)"],
        },
        "assumptions": entry.get("assumptions", []),
        "wall_s": round(wall, 1),
        "violations": len(violations),
        "harness_errors": harness_errors,
    }
    if not a.no_evidence and not a.only:
        os.makedirs(os.path.join(VERIF, "evidence"), exist_ok=True)
        with open(os.path.join(VERIF, "evidence", "%s.json" % prop), "w") as f:
            json.dump(evidence, f, indent=1)

    for line in kf_lines:
        print(line)
    print("%s tier=%s obligations=%d discharged=%d inconclusive=%d refuted=%d paths=%d solver=%.1fs wall=%.0fs"
          % (prop, tier, n_ob, len(confirmed), len(unknown), evidence["coverage"]["refuted"], paths,
             evidence["coverage"]["solver_time_s"], wall))
    for r in unknown:
        print("  inconclusive: %s part %s (%s paths) %s" % (r.get("obligation"), r.get("part"), r.get("paths"),
                                                           (r.get("message") or "")[:200]))
    if harness_errors:
        for h in harness_errors:
            print("HARNESS-ERROR: " + h)
        sys.exit(3)
    if violations:
        for v in violations:
            print("VIOLATION property=%s replay=%s" % (prop, v))
        sys.exit(1)
    sys.exit(0)


def _z3v():
    try:
        import z3
        return z3.get_version_string()
    except Exception:
        return "?"


if __name__ == "__main__":
    try:
        main()
    except SystemExit:
        raise
    except BaseException:
        # a crash of the machinery itself is neither a pass nor a violation: reserved exit code 3
        import traceback
        traceback.print_exc()
        print("HARNESS-ERROR: the check machinery crashed (no verdict)")
        sys.exit(3)
