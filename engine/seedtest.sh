#!/bin/bash
# usage: seedtest.sh <patch.diff> <property> [check args...]   : apply a seeded change to /repo, run the check, undo
patch="$1"; prop="$2"; shift 2
cd /repo && { git apply "$patch" 2>/dev/null || git apply -3 "$patch" 2>/dev/null || patch -p1 -F3 -s < "$patch"; } || { echo "APPLY FAILED"; git -C /repo checkout -- .; exit 9; }; git -C /repo reset -q
cd /verif && ./check "$prop" --no-evidence "$@" 2>&1 | tail -8
rc=${PIPESTATUS[0]}
git -C /repo checkout -- . 
echo "seedtest rc=$rc"
