#!/bin/bash
# usage: seedtest.sh <patch.diff> <property> [check args...]   : apply a seeded change to /repo, run the check, undo
#        SEED_REPO=<scratch worktree of /repo> makes it use that tree instead (several seeds can then run side by side)
patch="$1"; prop="$2"; shift 2
R=${SEED_REPO:-/repo}
[ "$R" != /repo ] && export VERIF_REPO=$R
clean() { git -C $R checkout HEAD -- . 2>/dev/null; git -C $R reset -q; git -C $R clean -fdq -- middleware; }
cd $R && { git apply "$patch" 2>/dev/null || git apply -3 "$patch" 2>/dev/null; } || { echo "APPLY FAILED (use a patch_head.diff rebased onto the fix commits)"; clean; exit 9; }
git -C /repo reset -q
cd /verif && ./check "$prop" --no-evidence "$@" 2>&1 | tail -8
rc=${PIPESTATUS[0]}
clean
echo "seedtest rc=$rc"
