"""Validates the bitcoin.core shim against the repository's own recorded samples (tests/comm/test_bitcoin.py,
which cannot be imported by the pinned suite because python-bitcoinlib is not installed)."""
import importlib.util
import os
import sys
import unittest

VERIF = os.path.dirname(os.path.dirname(os.path.abspath(__file__)))
REPO = os.environ.get("VERIF_REPO", "/repo")
sys.path.insert(0, os.path.join(REPO, "middleware"))
sys.path.insert(0, os.path.join(VERIF, "shim"))
spec = importlib.util.spec_from_file_location("upstream_test_bitcoin", os.path.join(REPO, "middleware/tests/comm/test_bitcoin.py"))
m = importlib.util.module_from_spec(spec)
spec.loader.exec_module(m)
r = unittest.TextTestRunner(verbosity=0, stream=sys.stdout).run(unittest.defaultTestLoader.loadTestsFromModule(m))
print("shim selfcheck: %d tests, ok=%s" % (r.testsRun, r.wasSuccessful()))
sys.exit(0 if r.wasSuccessful() and r.testsRun >= 20 else 1)
