#!/bin/bash
# Runs the thorough tier of the given properties one after the other (used with `vp run`); writes thorough_summary.txt
cd "$(dirname "$0")/.."
: > thorough_summary.txt
for p in "$@"; do
  s=$(date +%s)
  ./check $p --tier thorough --no-evidence > thorough_$p.log 2>&1; rc=$?
  echo "$p rc=$rc $(( $(date +%s) - s ))s $(grep -v KNOWN thorough_$p.log | grep tier= | tail -1)" >> thorough_summary.txt
  grep "inconclusive:\|VIOLATION\|HARNESS" thorough_$p.log | head -20 >> thorough_summary.txt
done
echo ALLDONE >> thorough_summary.txt
