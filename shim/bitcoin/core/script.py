"""bitcoin.core.script namespace: only the legacy SIGHASH_ALL SignatureHash is provided
(used by the repository's test samples to validate this shim)."""
import hashlib

SIGHASH_ALL = 1
SIGVERSION_BASE = 0
SIGVERSION_WITNESS_V0 = 1


def SignatureHash(script, txTo, inIdx, hashtype, amount=None, sigversion=SIGVERSION_BASE):
    from . import CMutableTransaction, CTxIn, CScript, _le, _varint
    if sigversion != SIGVERSION_BASE or hashtype != SIGHASH_ALL:
        raise NotImplementedError("shim: only legacy SIGHASH_ALL")
    if inIdx >= len(txTo.vin):
        raise ValueError("inIdx %d out of range (%d)" % (inIdx, len(txTo.vin)))
    vin = []
    for i, txin in enumerate(txTo.vin):
        s = CScript(bytes(script.b)) if i == inIdx else CScript(b'')
        vin.append(CTxIn(txin.prevout, s, txin.nSequence))
    tmp = CMutableTransaction(vin, txTo.vout, txTo.nLockTime, txTo.nVersion)
    ser = bytes(tmp._ser(include_witness=False)) + bytes(_le(hashtype, 4))
    return hashlib.sha256(hashlib.sha256(ser).digest()).digest()
