"""Subset of python-bitcoinlib 0.12.2 `bitcoin.core` used by /repo/middleware/comm/bitcoin.py.

Trusted base of the verification (validated on every run against the repository's own
recorded samples in tests/comm/test_bitcoin.py).  Written to be executable symbolically:
no `bytes`/`int` subclasses, no `struct`, explicit bounds checks before slicing.

Semantics reproduced (python-bitcoinlib 0.12.2):
 * (de)serialisation of transactions incl. the segwit marker/flag form, VarInt, vectors,
   truncation / extra-data / oversize errors;
 * CScript iteration (`__iter__`, `raw_iter`) and construction from an iterable of
   ints / bytes / CScriptOp with canonical push re-encoding (`encode_op_pushdata`);
 * GetHash = double SHA-256 of the serialisation; CBlockHeader.
"""
import hashlib

from . import script  # noqa: F401  (bitcoin.core.script namespace)

MAX_SIZE = 0x02000000

# When True, serialize() returns a ByteList (list-backed, may hold symbolic ints)
SYMBOLIC_OUTPUT = False


class SerializationError(Exception):
    pass


class SerializationTruncationError(SerializationError):
    pass


class DeserializationExtraDataError(SerializationError):
    def __init__(self, msg, obj=None, padding=None):
        super().__init__(msg)
        self.obj = obj
        self.padding = padding


class CScriptInvalidError(Exception):
    pass


class CScriptTruncatedPushDataError(CScriptInvalidError):
    def __init__(self, msg, data=None):
        self.data = data
        super().__init__(msg)


class ByteList:
    """Minimal immutable byte string backed by a list of ints (possibly symbolic)."""
    __slots__ = ("v",)

    def __init__(self, v=()):
        self.v = list(v)

    def __len__(self):
        return len(self.v)

    def __getitem__(self, i):
        if isinstance(i, slice):
            return ByteList(self.v[i])
        return self.v[i]

    def __iter__(self):
        return iter(self.v)

    def __add__(self, o):
        return ByteList(self.v + list(o))

    def __radd__(self, o):
        return ByteList(list(o) + self.v)

    def __eq__(self, o):
        try:
            return self.v == list(o)
        except TypeError:
            return NotImplemented

    def __hash__(self):
        return hash(bytes(self.v))

    def __bytes__(self):
        return bytes(self.v)

    def hex(self):
        return bytes(self.v).hex()

    def __repr__(self):
        return "ByteList(%r)" % (self.v,)


def _out(lst):
    if SYMBOLIC_OUTPUT:
        return ByteList(lst)
    return bytes(lst)


class _Reader:
    def __init__(self, buf):
        self.buf = buf
        self.pos = 0
        self.n = len(buf)

    def read(self, n):
        if n < 0:
            raise ValueError("Received message size must be non-negative")
        if n > MAX_SIZE:
            raise SerializationError("Asked to read 0x%x bytes; MAX_SIZE exceeded" % n)
        if self.pos + n > self.n:
            raise SerializationTruncationError(
                "Asked to read %i bytes, but only got %i" % (n, self.n - self.pos))
        r = self.buf[self.pos:self.pos + n]
        self.pos += n
        return r

    def byte(self):
        if self.pos + 1 > self.n:
            raise SerializationTruncationError("Asked to read 1 bytes, but only got 0")
        b = self.buf[self.pos]
        self.pos += 1
        return b

    def le(self, n):
        # arithmetic instead of shifts / ors: same value, and executable symbolically without enumeration
        r = 0
        m = 1
        for i in range(n):
            r = r + self.byte() * m
            m = m * 256
        return r

    def sle(self, n):
        r = self.le(n)
        if r >= (1 << (8 * n - 1)):
            r -= (1 << (8 * n))
        return r

    def varint(self):
        r = self.byte()
        if r < 0xfd:
            return r
        elif r == 0xfd:
            return self.le(2)
        elif r == 0xfe:
            return self.le(4)
        else:
            return self.le(8)


def _le(v, n):
    out = []
    for i in range(n):
        out.append(v % 256)
        v = v // 256
    return out


def _sle(v, n):
    if v < 0:
        v += (1 << (8 * n))
    return _le(v, n)


def _varint(i):
    if i < 0:
        raise ValueError('varint must be non-negative integer')
    elif i < 0xfd:
        return [i]
    elif i <= 0xffff:
        return [0xfd] + _le(i, 2)
    elif i <= 0xffffffff:
        return [0xfe] + _le(i, 4)
    else:
        if i > 0xffffffffffffffff:
            raise OverflowError("varint too large")
        return [0xff] + _le(i, 8)


class VarIntSerializer:
    @classmethod
    def serialize(cls, obj):
        return _out(_varint(obj))

    @classmethod
    def deserialize(cls, buf):
        r = _Reader(buf)
        v = r.varint()
        if r.pos != r.n:
            raise DeserializationExtraDataError("Not all bytes consumed during deserialization")
        return v


def Hash(msg):
    return hashlib.sha256(hashlib.sha256(bytes(msg)).digest()).digest()


# ---------------------------------------------------------------- script

OP_PUSHDATA1 = 0x4c
OP_PUSHDATA2 = 0x4d
OP_PUSHDATA4 = 0x4e
OP_1NEGATE = 0x4f
OP_1 = 0x51
OP_16 = 0x60


class CScriptOp:
    """A single script opcode (plain wrapper around an int 0..255)."""
    __slots__ = ("n",)

    def __init__(self, n):
        self.n = n

    @staticmethod
    def encode_op_pushdata(d):
        n = len(d)
        if n < 0x4c:
            return [n] + list(d)
        elif n <= 0xff:
            return [OP_PUSHDATA1, n] + list(d)
        elif n <= 0xffff:
            return [OP_PUSHDATA2] + _le(n, 2) + list(d)
        elif n <= 0xffffffff:
            return [OP_PUSHDATA4] + _le(n, 4) + list(d)
        else:
            raise ValueError("Data too long to encode in a PUSHDATA op")

    @staticmethod
    def encode_op_n(n):
        if not (0 <= n <= 16):
            raise ValueError('Integer must be in range 0 <= n <= 16, got %d' % n)
        if n == 0:
            return 0
        return OP_1 + n - 1

    def decode_op_n(self):
        if self.n == 0:
            return 0
        if not (self.n == 0 or OP_1 <= self.n <= OP_16):
            raise ValueError('op %r is not an OP_N' % self)
        return self.n - (OP_1 - 1)

    def is_small_int(self):
        return (OP_1 <= self.n <= OP_16) or self.n == 0

    def __int__(self):
        return self.n

    def __index__(self):
        return self.n

    def __eq__(self, o):
        if isinstance(o, CScriptOp):
            return self.n == o.n
        return self.n == o

    def __hash__(self):
        return hash(self.n)

    def __repr__(self):
        return "CScriptOp(0x%x)" % self.n


def _bn2vch(v):
    # bitcoin.core._bignum.bn2vch: little-endian sign-magnitude, minimal
    if v == 0:
        return []
    neg = v < 0
    a = -v if neg else v
    out = []
    while a:
        out.append(a & 0xff)
        a >>= 8
    if out[-1] & 0x80:
        out.append(0x80 if neg else 0)
    elif neg:
        out[-1] |= 0x80
    return out


class CScript:
    """Serialized script (plain wrapper: `.b` is a bytes-like / list of ints)."""
    __slots__ = ("b",)

    def __init__(self, value=b''):
        if isinstance(value, (bytes, bytearray, ByteList, CScript)):
            self.b = value.b if isinstance(value, CScript) else value
        else:
            out = []
            for item in value:
                out += CScript._coerce(item)
            self.b = _out(out)

    @staticmethod
    def _coerce(other):
        if isinstance(other, CScriptOp):
            return [other.n]
        elif isinstance(other, bool):
            raise TypeError("Unsupported type bool in CScript construction")
        elif isinstance(other, int):
            if 0 <= other <= 16:
                return [CScriptOp.encode_op_n(other)]
            elif other == -1:
                return [OP_1NEGATE]
            else:
                return CScriptOp.encode_op_pushdata(_bn2vch(other))
        elif isinstance(other, (bytes, bytearray, ByteList)):
            return CScriptOp.encode_op_pushdata(other)
        raise TypeError("Unsupported type %s in CScript construction" % type(other).__name__)

    def __len__(self):
        return len(self.b)

    def __bytes__(self):
        return bytes(self.b)

    def __eq__(self, o):
        if isinstance(o, CScript):
            return list(self.b) == list(o.b)
        try:
            return list(self.b) == list(o)
        except TypeError:
            return NotImplemented

    def __hash__(self):
        return hash(bytes(self.b))

    def hex(self):
        return bytes(self.b).hex()

    def raw_iter(self):
        b = self.b
        n = len(b)
        i = 0
        while i < n:
            sop_idx = i
            opcode = b[i]
            i += 1
            if opcode > OP_PUSHDATA4:
                yield (opcode, None, sop_idx)
            else:
                if opcode < OP_PUSHDATA1:
                    pushdata_type = 'PUSHDATA(%d)' % opcode
                    datasize = opcode
                elif opcode == OP_PUSHDATA1:
                    pushdata_type = 'PUSHDATA1'
                    if i >= n:
                        raise CScriptInvalidError('PUSHDATA1: missing data length')
                    datasize = b[i]
                    i += 1
                elif opcode == OP_PUSHDATA2:
                    pushdata_type = 'PUSHDATA2'
                    if i + 1 >= n:
                        raise CScriptInvalidError('PUSHDATA2: missing data length')
                    datasize = b[i] + b[i + 1] * 256
                    i += 2
                else:
                    pushdata_type = 'PUSHDATA4'
                    if i + 3 >= n:
                        raise CScriptInvalidError('PUSHDATA4: missing data length')
                    datasize = b[i] + b[i + 1] * 256 + (b[i + 2] << 16) + (b[i + 3] << 24)
                    i += 4
                if i + datasize > n:
                    raise CScriptTruncatedPushDataError(
                        '%s: truncated data' % pushdata_type, b[i:n])
                data = b[i:i + datasize]
                i += datasize
                yield (opcode, data, sop_idx)

    def __iter__(self):
        for (opcode, data, sop_idx) in self.raw_iter():
            if opcode == 0:
                yield 0
            elif data is not None:
                yield data
            else:
                op = CScriptOp(opcode)
                if op.is_small_int():
                    yield op.decode_op_n()
                else:
                    yield op

    def __repr__(self):
        return "CScript(%r)" % (self.b,)


# ---------------------------------------------------------------- transactions

class COutPoint:
    __slots__ = ("hash", "n")

    def __init__(self, hash=b'\x00' * 32, n=0xffffffff):
        if not len(hash) == 32:
            raise ValueError('COutPoint: hash must be exactly 32 bytes; got %d bytes' % len(hash))
        if not (0 <= n <= 0xffffffff):
            raise ValueError('COutPoint: n must be in range 0x0 to 0xffffffff; got %x' % n)
        self.hash = hash
        self.n = n

    @classmethod
    def _de(cls, r):
        h = r.read(32)
        n = r.le(4)
        return cls(h, n)

    def _ser(self):
        return list(self.hash) + _le(self.n, 4)

    @classmethod
    def from_outpoint(cls, o):
        return cls(o.hash, o.n)


CMutableOutPoint = COutPoint


class CTxIn:
    __slots__ = ("prevout", "scriptSig", "nSequence")

    def __init__(self, prevout=None, scriptSig=None, nSequence=0xffffffff):
        if not (0 <= nSequence <= 0xffffffff):
            raise ValueError('CTxIn: nSequence must be an integer between 0x0 and 0xffffffff; got %x'
                             % nSequence)
        self.nSequence = nSequence
        self.prevout = COutPoint() if prevout is None else prevout
        self.scriptSig = CScript() if scriptSig is None else scriptSig

    @classmethod
    def _de(cls, r):
        prevout = COutPoint._de(r)
        scriptSig = CScript(r.read(r.varint()))
        nSequence = r.le(4)
        return cls(prevout, scriptSig, nSequence)

    def _ser(self):
        sb = self.scriptSig.b
        return self.prevout._ser() + _varint(len(sb)) + list(sb) + _le(self.nSequence, 4)

    @classmethod
    def from_txin(cls, txin):
        prevout = COutPoint.from_outpoint(txin.prevout)
        return cls(prevout, txin.scriptSig, txin.nSequence)


CMutableTxIn = CTxIn


class CTxOut:
    __slots__ = ("nValue", "scriptPubKey")

    def __init__(self, nValue=-1, scriptPubKey=None):
        self.nValue = int(nValue) if type(nValue) is not int else nValue
        self.scriptPubKey = CScript() if scriptPubKey is None else scriptPubKey

    @classmethod
    def _de(cls, r):
        nValue = r.sle(8)
        spk = CScript(r.read(r.varint()))
        return cls(nValue, spk)

    def _ser(self):
        sb = self.scriptPubKey.b
        return _sle(self.nValue, 8) + _varint(len(sb)) + list(sb)


CMutableTxOut = CTxOut


class CTxInWitness:
    __slots__ = ("stack",)

    def __init__(self, stack=()):
        self.stack = list(stack)

    def is_null(self):
        return len(self.stack) == 0

    @classmethod
    def _de(cls, r):
        n = r.varint()
        stack = []
        for _ in range(n):
            stack.append(r.read(r.varint()))
        return cls(stack)

    def _ser(self):
        out = _varint(len(self.stack))
        for s in self.stack:
            out += _varint(len(s)) + list(s)
        return out


def _vector_de(r, eltde):
    n = r.varint()
    out = []
    for _ in range(n):
        out.append(eltde(r))
    return out


class CMutableTransaction:
    __slots__ = ("nVersion", "vin", "vout", "nLockTime", "wit")

    def __init__(self, vin=None, vout=None, nLockTime=0, nVersion=1, witness=None):
        if not (0 <= nLockTime <= 0xffffffff):
            raise ValueError('CTransaction: nLockTime must be in range 0x0 to 0xffffffff; got %x'
                             % nLockTime)
        self.nLockTime = nLockTime
        self.nVersion = nVersion
        self.vin = [] if vin is None else vin
        self.vout = [] if vout is None else vout
        self.wit = [] if witness is None else witness

    @classmethod
    def deserialize(cls, buf, allow_padding=False):
        r = _Reader(buf)
        nVersion = r.sle(4)
        pos = r.pos
        marker = r.byte()
        flag = r.byte()
        if marker == 0 and flag == 1:
            vin = _vector_de(r, CTxIn._de)
            vout = _vector_de(r, CTxOut._de)
            wit = [CTxInWitness._de(r) for _ in range(len(vin))]
            nLockTime = r.le(4)
        else:
            r.pos = pos
            vin = _vector_de(r, CTxIn._de)
            vout = _vector_de(r, CTxOut._de)
            wit = []
            nLockTime = r.le(4)
        tx = cls(vin, vout, nLockTime, nVersion, wit)
        if not allow_padding and r.pos != r.n:
            raise DeserializationExtraDataError(
                "Not all bytes consumed during deserialization", tx, buf[r.pos:])
        return tx

    def _wit_is_null(self):
        for w in self.wit:
            if not w.is_null():
                return False
        return True

    def _ser(self, include_witness=True):
        out = _sle(self.nVersion, 4)
        if include_witness and not self._wit_is_null():
            assert len(self.wit) <= len(self.vin)
            out += [0, 1]
            out += _varint(len(self.vin))
            for i in self.vin:
                out += i._ser()
            out += _varint(len(self.vout))
            for o in self.vout:
                out += o._ser()
            for w in self.wit:
                out += w._ser()
        else:
            out += _varint(len(self.vin))
            for i in self.vin:
                out += i._ser()
            out += _varint(len(self.vout))
            for o in self.vout:
                out += o._ser()
        out += _le(self.nLockTime, 4)
        return out

    def serialize(self, params=None):
        return _out(self._ser())

    def GetHash(self):
        return Hash(bytes(self._ser()))

    def GetTxid(self):
        return Hash(bytes(self._ser(include_witness=False)))


CTransaction = CMutableTransaction


class CBlockHeader:
    __slots__ = ("nVersion", "hashPrevBlock", "hashMerkleRoot", "nTime", "nBits", "nNonce")

    def __init__(self, nVersion=2, hashPrevBlock=b'\x00' * 32, hashMerkleRoot=b'\x00' * 32,
                 nTime=0, nBits=0, nNonce=0):
        self.nVersion = nVersion
        self.hashPrevBlock = hashPrevBlock
        self.hashMerkleRoot = hashMerkleRoot
        self.nTime = nTime
        self.nBits = nBits
        self.nNonce = nNonce

    @classmethod
    def deserialize(cls, buf, allow_padding=False):
        r = _Reader(buf)
        nVersion = r.sle(4)
        hp = r.read(32)
        hm = r.read(32)
        nTime = r.le(4)
        nBits = r.le(4)
        nNonce = r.le(4)
        if not allow_padding and r.pos != r.n:
            raise DeserializationExtraDataError("Not all bytes consumed during deserialization")
        return cls(nVersion, hp, hm, nTime, nBits, nNonce)

    def serialize(self):
        return bytes(_sle(self.nVersion, 4) + list(self.hashPrevBlock) + list(self.hashMerkleRoot)
                     + _le(self.nTime, 4) + _le(self.nBits, 4) + _le(self.nNonce, 4))

    def GetHash(self):
        return Hash(self.serialize())
