# Shim package: provides ONLY `bitcoin.core` (python-bitcoinlib 0.12.2 subset).
# python-bitcoinlib is not installed in this sandbox; see DESIGN.md section 1.1.
