"""Byte-string models, formatting stubs and the simulated transport.

Symbolic mode: byte strings exchanged with the device are list-backed (`HB`) so that
symbolic bytes / symbolic slice bounds are never realised at a C boundary.
Replay mode (VERIF_REPLAY=1): real `bytes`/`bytearray`, real `struct`, real `hex`.
"""
import logging

from harness.common import REPLAY, NULL_LOGGER, reraise_control_flow


class LazyHex:
    """Stands for `bytes(v).hex()` without rendering it (rendering realises symbolic bytes)."""
    __slots__ = ("v",)

    def __init__(self, v):
        self.v = v

    def __eq__(self, o):
        if isinstance(o, LazyHex):
            return len(self.v) == len(o.v) and all(a == b for a, b in zip(self.v, o.v))
        if isinstance(o, str):
            try:
                ob = bytes.fromhex(o)
            except ValueError:
                return False
            return len(self.v) == len(ob) and all(a == b for a, b in zip(self.v, ob))
        return NotImplemented

    def __ne__(self, o):
        r = self.__eq__(o)
        return r if r is NotImplemented else not r

    def __hash__(self):
        return 0

    def __ch_deep_realize__(self, memo):
        return self        # "%s" % obj deep-realises obj under CrossHair: keep the bytes symbolic

    def __repr__(self):
        return "<hex>"     # never render (rendering realises symbolic bytes)

    __str__ = __repr__

    def lower(self):
        return self


REAL_HEX = [False]     # obligations whose code parses the hex text again (bytes.fromhex) switch real rendering on


def in_crosshair():
    """True iff the CURRENT THREAD is the one CrossHair is executing symbolically (its tracer flag is process-wide, its state space
    is thread-local: threads started by the code under test run natively and must not touch either)."""
    try:
        from crosshair.tracers import is_tracing
        from crosshair.statespace import _THREAD_LOCALS
    except Exception:
        return False
    return getattr(_THREAD_LOCALS, "space", None) is not None and is_tracing()


def in_crosshair_thread():
    """True iff the current thread is the one CrossHair analyses, whether or not tracing is momentarily switched off."""
    try:
        from crosshair.statespace import _THREAD_LOCALS
    except Exception:
        return False
    return getattr(_THREAD_LOCALS, "space", None) is not None


def _realize(x):
    if not in_crosshair():
        return x          # (also: a NoTracing block left by another thread would hand CrossHair's tracer to that thread)
    try:
        from crosshair.core import realize
        return realize(x)
    except Exception:
        return x


class HB:
    """List-backed immutable byte string (possibly symbolic content / length).
    realize_slices: for long CONCRETE payloads sliced with symbolic bounds it is much cheaper to let the
    solver enumerate the bound (<= 255 values) than to iterate a symbolic-length view of 255 elements."""
    __slots__ = ("v", "realize_slices")

    def __init__(self, v, realize_slices=False):
        self.v = v
        self.realize_slices = realize_slices

    def __len__(self):
        return len(self.v)

    def __getitem__(self, i):
        if isinstance(i, slice):
            if self.realize_slices:
                i = slice(_realize(i.start), _realize(i.stop), i.step)
            return HB(self.v[i])
        return self.v[i]

    def __iter__(self):
        return iter(self.v)

    def __add__(self, o):
        return HB(list(self.v) + list(o))

    def __radd__(self, o):
        return HB(list(o) + list(self.v))

    def __eq__(self, o):
        try:
            ol = list(o)
        except TypeError:
            return NotImplemented
        return len(self.v) == len(ol) and all(a == b for a, b in zip(self.v, ol))

    def __ne__(self, o):
        r = self.__eq__(o)
        return r if r is NotImplemented else not r

    def __hash__(self):
        return 0

    def __lt__(self, o):
        return list(self.v) < list(o)

    def __le__(self, o):
        return list(self.v) <= list(o)

    def __gt__(self, o):
        return list(self.v) > list(o)

    def __ge__(self, o):
        return list(self.v) >= list(o)

    def __bytes__(self):
        return bytes(list(self.v))

    def hex(self):
        if REAL_HEX[0]:
            return bytes([_realize(b) for b in self.v]).hex()
        return LazyHex(self.v)

    def __ch_deep_realize__(self, memo):
        return self

    def __repr__(self):
        return "<HB>"

    __str__ = __repr__


class _BytesModel:
    """Stands for the builtin `bytes` inside ledger.hsm2dongle (symbolic mode only): byte strings built by the
    APDU layer become HB, so that `.hex()` for log lines and slicing never realise symbolic content."""
    def __call__(self, *a, **k):
        if len(a) == 1 and not k:
            x = a[0]
            if isinstance(x, HB):
                return x
            if isinstance(x, (list, tuple)):
                return HB(list(x))
            if isinstance(x, (bytes, bytearray)):
                return HB(list(x))
        return HB(list(bytes(*a, **k)))

    @staticmethod
    def fromhex(s):
        if isinstance(s, LazyHex):
            return HB(list(s.v))
        return HB(list(_native_fromhex(s)))


def _native_fromhex(s):
    try:
        from crosshair.core import realize
        from crosshair.tracers import NoTracing, is_tracing
    except Exception:
        return bytes.fromhex(s)
    if not in_crosshair():
        return bytes.fromhex(s)
    s = realize(s)
    with NoTracing():
        return bytes.fromhex(s)


BYTES_MODEL = _BytesModel()


def mkbytes(v, realize_slices=False):
    """A byte string for the code under test: HB symbolically, real bytes in replay."""
    if REPLAY:
        return bytes(list(v))
    return HB(v, realize_slices)


def resp(v):
    """A device answer (ledgerblue returns a bytearray)."""
    if REPLAY:
        return bytearray(list(v))
    return HB(v)


def hexof(v):
    """What `.hex()` of the byte string `v` is, in the representation of the current mode."""
    if REPLAY:
        return bytes(list(v)).hex()
    return LazyHex(list(v))


def blist(x):
    """Bytes-like -> list of ints (no realisation)."""
    if isinstance(x, HB):
        return list(x.v)
    return list(x)


# ------------------------------------------------------------------ formatting stubs

class _StructStub:
    """struct.pack for the two shapes used by the APDU layer, without C-level realisation."""
    error = Exception

    @staticmethod
    def pack(fmt, *args):
        if fmt.startswith("BB") and fmt.endswith("s") and len(args) == 3:
            cla, cmd, data = args
            n = int(fmt[2:-1])
            assert n == len(data), "struct stub: length mismatch"
            assert 0 <= cla <= 255 and 0 <= cmd <= 255
            return mkbytes([int(cla), int(cmd)] + blist(data))
        # any other format: the real struct on the (realised) arguments
        import struct as real_struct
        return real_struct.pack(fmt, *[bytes(list(a)) if isinstance(a, HB) else _realize(a) for a in args])


def _hex_stub(x):
    return "0x?"


def c_boundary(fn):
    """Wrap a function implemented in C (hash primitives) so that CrossHair's proxy objects
    (e.g. the SymbolicBytes that bytes.fromhex returns even for concrete input) are turned
    into the real objects before crossing into C.  Values are realised, never altered."""
    def wrapper(*a, **k):
        try:
            from crosshair.core import deep_realize
            from crosshair.tracers import NoTracing, is_tracing
        except Exception:
            return fn(*a, **k)
        if not in_crosshair():
            return fn(*a, **k)
        a = deep_realize(a)
        k = deep_realize(k)
        with NoTracing():
            return fn(*a, **k)
    wrapper.__name__ = getattr(fn, "__name__", "c_boundary")
    return wrapper


def install_c_boundaries():
    if REPLAY:
        return
    import comm.utils as cu
    import ledger.block_utils as bu
    if not getattr(cu.keccak_256, "_verif_wrapped", False):
        w = c_boundary(cu.keccak_256)
        w._verif_wrapped = True
        cu.keccak_256 = w
        bu.keccak_256 = w


_NATIVE = [
    ("ledger.hsm2dongle", ["rlp_mm_payload_size", "remove_mm_fields_if_present", "get_coinbase_txn",
                           "get_block_hash", "coinbase_tx_get_hash", "encode_varint"]),
    ("ledger.protocol", ["get_unsigned_tx", "get_tx_hash"]),
]


_ORIG = {}
_NATIVE_VALIDATORS = [("comm.protocol", ["is_nonempty_hex_string", "is_hex_string_of_length", "has_nonempty_hex_field",
                                         "has_hex_field_of_length"])]


def install_native_helpers(skip=(), validators=False):
    """Obligations whose blocks / transactions are concrete catalogue entries run the repository's
    block / transaction helpers natively (real code, concrete input, no tracing): the solver variables
    of those obligations do not flow into them, and tracing them costs seconds per path.
    `skip`: names that must stay traced because a symbolic value does flow into them."""
    if REPLAY:
        return
    import importlib
    for modname, names in _NATIVE + _NATIVE_VALIDATORS:
        mod = importlib.import_module(modname)
        for n in names:
            key = (modname, n)
            if key not in _ORIG:
                _ORIG[key] = getattr(mod, n)
            if n in skip or ((modname, names) in _NATIVE_VALIDATORS and not validators):
                setattr(mod, n, _ORIG[key])
            else:
                w = c_boundary(_ORIG[key])
                w._verif_wrapped = True
                setattr(mod, n, w)


def install_format_stubs():
    """Rebind module-level names so that log formatting never realises symbolic values."""
    logging.disable(logging.CRITICAL)
    if REPLAY:
        return
    import ledger.hsm2dongle as h
    import ledger.protocol as lp
    import ledger.hsm2dongle_cmds.signer_heartbeat as sh
    import ledger.hsm2dongle_cmds.ui_heartbeat as uh
    import ledger.version as lv
    h.struct = _StructStub
    h.hex = _hex_stub
    lp.hex = _hex_stub
    sh.hex = _hex_stub
    uh.hex = _hex_stub
    h.HSM2DongleErrorResult.__str__ = lambda self: "Dongle returned error code"
    lv.HSM2FirmwareVersion.__str__ = lambda self: "v?"
    try:
        import admin.dongle_admin as da
        da.struct = _StructStub
        da.hex = _hex_stub
    except Exception:
        pass


class _HidStub:
    @staticmethod
    def hidapi_exit():
        return None


class _TimeStub:
    @staticmethod
    def sleep(s):
        return None

    @staticmethod
    def time():
        return 0.0


def install_env_stubs():
    import ledger.hsm2dongle as h
    import ledger.protocol as lp
    h.hid = _HidStub
    lp.time = _TimeStub


# ------------------------------------------------------------------ transport

class CommException(Exception):
    pass


def comm_exception(msg, sw):
    from ledgerblue.commException import CommException as CE
    return CE(msg, sw)


FAULT_NONE = 0
FAULT_SW = 1        # device answers with status word sw != 0x9000 (ledgerblue raises CommException)
FAULT_TIMEOUT = 2   # CommException("Timeout", 0x6F00)
FAULT_WRITE = 3     # BaseException("Error while writing")
FAULT_READ = 4      # OSError("read error")


def raise_fault(kind, sw=0):
    if kind == FAULT_SW:
        raise comm_exception("Invalid status %04x" % 0 if not REPLAY else "Invalid status %04x" % sw, sw)
    if kind == FAULT_TIMEOUT:
        raise comm_exception("Timeout", 0x6F00)
    if kind == FAULT_WRITE:
        raise BaseException("Error while writing")
    if kind == FAULT_READ:
        raise OSError("read error")


class Transport:
    """What ledgerblue's getDongle() returns; forwards to a simulated device.

    `world.log` receives ('open',), ('close',), ('apdu', bytes) events.
    """
    def __init__(self, world):
        self.world = world
        self.opened = True
        world.log.append(("open",))

    def exchange(self, apdu, timeout=20000):
        w = self.world
        k = w.exchanges
        w.exchanges += 1
        w.log.append(("apdu", apdu))
        if w.fault_hook is not None:
            w.fault_hook(k, apdu)
        from sim.ledger import ProtocolViolation
        try:
            answer = w.device.handle(apdu)
            if w.after_hook is not None:
                w.after_hook(k, apdu)        # the device has carried the command out; its answer may get lost
            return answer
        except ProtocolViolation as e:
            # the firmware answers a host that breaks the protocol with an error status
            w.violations.append(str(e))
            raise comm_exception("Invalid status", 0x6B87 if blist(apdu)[1] in (0x10, 0x30) else 0x6A89)

    def close(self):
        self.world.log.append(("close",))
        self.opened = False


class World:
    """One simulated device + its transport log + fault hook."""
    def __init__(self, device):
        self.device = device
        self.log = []
        self.exchanges = 0
        self.violations = []
        self.fault_hook = None
        self.after_hook = None
        self.connect_hook = None

    def get_dongle(self, *a, **k):
        if self.connect_hook is not None:
            self.connect_hook()
        return Transport(self)

    def apdus(self):
        return [e[1] for e in self.log if e[0] == "apdu"]

    def install(self, native=True, bytes_model=False, traced=(), native_validators=False):
        import ledger.hsm2dongle as h
        if native:
            install_native_helpers(skip=traced, validators=native_validators)
        if bytes_model and not REPLAY:
            h.bytes = BYTES_MODEL
        elif "bytes" in h.__dict__:
            del h.bytes
        import ledger.hsm2dongle_tcp as ht
        h.getDongle = self.get_dongle
        ht.getDongle = self.get_dongle
        install_format_stubs()
        install_env_stubs()
        install_c_boundaries()


def passthrough(cls):
    """Subclass of a dongle class whose _send_command lets CrossHair's control-flow
    exceptions through (the real one catches BaseException)."""
    class V(cls):
        def _send_command(self, command, data=b"", timeout=10):
            try:
                return cls._send_command(self, command, data, timeout)
            except Exception as e:
                reraise_control_flow(e)
                raise
    V.__name__ = "V" + cls.__name__
    return V


def quiet(obj):
    """Replace the loggers of a protocol / dongle / pin object by the null logger."""
    if hasattr(obj, "logger"):
        obj.logger = NULL_LOGGER
    return obj
