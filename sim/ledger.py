"""Simulated powHSM device (Ledger UI/bootloader personality + signer personality).

Written from the firmware's wire format (firmware/src/powhsm/src/*.c, firmware/src/ledger/ui)
and docs; shares no code with the middleware.  Every answer is well-formed ("the device keeps
to its protocol"); deviations are injected by the harness through `World.fault_hook` or the
policy fields below.  The device *reassembles* what it is sent so that oracles can compare
it with the client's request.
"""
from sim.base import resp, blist

CLA = 0x80

MODE_BOOTLOADER = 0x02
MODE_SIGNER = 0x03
MODE_UI_HEARTBEAT = 0x04


def le(bs):
    # arithmetic, not bit operations: CrossHair enumerates values for | and << on symbolic ints
    r = 0
    m = 1
    for b in bs:
        r = r + b * m
        m = m * 256
    return r


def be(bs):
    r = 0
    for b in bs:
        r = r * 256 + b
    return r


class ProtocolViolation(Exception):
    """The middleware sent something the firmware would reject (recorded by the oracle)."""


class SimDevice:
    def __init__(self):
        # --- identity / mode
        self.mode = MODE_SIGNER
        self.onboarded = 1
        self.ui_version = (5, 4, 1)
        self.signer_version = (5, 4, 1)
        self.mode_after_exit = None      # mode byte the device shows after EXIT_MENU / exit_app
        self.exit_raises = None          # exception raised by the exit exchange (USB re-enumeration)
        # --- UI
        self.retries = 3
        self.echo_ok = True
        self.unlock_ok = 1
        self.pin_buffer = {}
        self.device_pin = None
        self.change_pin_sw = None        # status word raised by CHANGE_PIN (None = accept)
        self.newpin_reaction = "ack"     # ack | refuse | sw | write | read | timeout  (reaction to the new PIN)
        self.newpin_sw = 0x6A99
        self.unlock_pins = []            # PINs presented with an unlock command
        self.newpin_offered = []         # PINs presented with a change command
        self.sgx_onboard = None
        # --- attestation (UI: ledger/ui attestation.c ; signer: powhsm attestation.c)
        self.ui_att = {"app_hash": [0xAA] * 32, "pages": [[0x48, 0x53]], "signature": [0x30, 0x01], "ud": None}
        self.pw_att = {"app_hash": [0xBB] * 32, "msg_pages": [[0x50]], "env_pages": [[0x50]], "signature": [0x30, 0x02],
                       "legacy": False, "ud": None}
        self.auth = None
        self.auth_threshold = 1          # number of valid signatures after which the signer is authorized (None: never)
        self.seed = {}
        self.wiped = False
        # --- signer data
        self.pubkeys = {}                # path bytes (tuple) -> 65-byte list
        self.default_pubkey = [4] + [0x11] * 64
        self.hashes = {}                 # selector -> 32 byte list
        self.difficulty = [1]
        self.flags = [0, 0, 0]
        self.params = [0] * 69
        self.params[68] = 1
        self.signature = [0x30, 0x06, 0x02, 0x01, 0x11, 0x02, 0x01, 0x22]
        self.hb_pubkey = [4] + [0x33] * 64
        self.hb_message = [0x48, 0x42]
        self.hb_tweak = [0x55] * 32
        # --- chunk request policy: size requested for the next chunk (1..255)
        self.chunk = 255
        self.chunk_seq = None            # optional list of sizes used in order, then `chunk`
        # --- what the device has been sent (reassembled)
        self.sign = None
        self.block_op = None
        self.hb_ud = None
        self.received = []

    # ------------------------------------------------------------ helpers
    def next_request(self):
        if self.chunk_seq:
            return self.chunk_seq.pop(0)
        return self.chunk

    def version(self):
        return self.ui_version if self.mode != MODE_SIGNER else self.signer_version

    # ------------------------------------------------------------ dispatch
    def handle(self, apdu):
        a = blist(apdu)
        if len(a) < 2 or a[0] != CLA:
            raise ProtocolViolation("bad CLA")
        cmd = a[1]
        data = a[2:]
        self.received.append((cmd, data))
        if cmd == 0x06:   # IS_ONBOARD / version
            v = self.version()
            return resp([CLA, self.onboarded, v[0], v[1], v[2]])
        if cmd == 0x43:   # GET_MODE
            return resp([CLA, self.mode])
        if cmd == 0xFF or cmd == 0xFA:   # EXIT
            if self.mode_after_exit is not None:
                self.mode = self.mode_after_exit.pop(0) if isinstance(self.mode_after_exit, list) \
                    else self.mode_after_exit
            if self.exit_raises is not None:
                raise self.exit_raises
            return resp([CLA, cmd])
        if 0xA0 <= cmd <= 0xA5:
            return self.handle_ui(cmd, data)      # SGX management opcodes are served in every mode
        if self.mode == MODE_SIGNER:
            return self.handle_signer(cmd, data)
        if self.mode == MODE_UI_HEARTBEAT:
            if cmd == 0x60:
                return self.handle_heartbeat(data)
            raise ProtocolViolation("command %x in UI heartbeat mode" % cmd)
        return self.handle_ui(cmd, data)

    # ------------------------------------------------------------ UI / bootloader
    def handle_ui(self, cmd, data):
        if cmd == 0x02:   # ECHO
            if self.echo_ok:
                return resp([CLA, 0x02] + data)
            return resp([CLA, 0x02] + [b ^ 1 for b in data])
        if cmd == 0x45:   # RETRIES
            return resp([CLA, 0x45, self.retries])
        if cmd == 0x41:   # SEND_PIN idx byte
            self.pin_buffer[data[0]] = data[1]
            return resp([CLA, 0x41])
        if cmd == 0xFE:   # UNLOCK: the PIN is what SEND_PIN put into the buffer (no length prefix)
            self.unlock_pins.append([self.pin_buffer[i] for i in sorted(self.pin_buffer)])
            self.pin_buffer = {}
            return resp([CLA, 0xFE, self.unlock_ok])
        if cmd == 0x08:   # CHANGE_PIN: buffer = length | pin
            n = self.pin_buffer.get(0, 0)
            pin = [self.pin_buffer.get(1 + i) for i in range(n)]
            self.newpin_offered.append(pin)
            self.pin_buffer = {}
            if self.change_pin_sw is not None:
                from sim.base import raise_fault, FAULT_SW
                raise_fault(FAULT_SW, self.change_pin_sw)
            self._react_newpin()
            if self.newpin_reaction == "refuse":
                from sim.base import raise_fault, FAULT_SW
                raise_fault(FAULT_SW, 0x69A0)
            self.device_pin = pin
            return resp([CLA, 0x08])
        # ---- SGX personality (sgx/hsm2dongle.py opcodes)
        if cmd == 0xA4:   # SGX_ECHO
            if self.echo_ok:
                return resp([CLA, 0xA4] + data)
            return resp([CLA, 0xA4] + [b ^ 1 for b in data])
        if cmd == 0xA2:   # SGX_RETRIES
            return resp([CLA, 0xA2, self.retries])
        if cmd == 0xA3:   # SGX_UNLOCK: 0 | pin
            self.unlock_pins.append(data[1:])
            return resp([CLA, 0xA3, self.unlock_ok])
        if cmd == 0xA5:   # SGX_CHANGE_PASSWORD: 0 | pin
            self.newpin_offered.append(data[1:])
            self._react_newpin()
            if self.newpin_reaction == "refuse":
                return resp([CLA, 0xA5, 0])
            self.device_pin = data[1:]
            return resp([CLA, 0xA5, 1])
        if cmd == 0xA0:   # SGX_ONBOARD: 0 | seed(32) | pin
            self.sgx_onboard = (data[1:33], data[33:])
            return resp([CLA, 0xA0, 1])
        if cmd == 0x50:   # UI attestation
            op = data[0]
            a = self.ui_att
            if op == 0x04:
                return resp([CLA, 0x50, 0x04] + list(a["app_hash"]))
            if op == 0x01:
                a["ud"] = data[1:]
                return resp([CLA, 0x50, 0x01])
            if op == 0x02:
                page = data[1]
                if page >= len(a["pages"]):
                    raise ProtocolViolation("ui attestation: page out of range")
                more = 1 if page + 1 < len(a["pages"]) else 0
                return resp([CLA, 0x50, 0x02, more] + list(a["pages"][page]))
            if op == 0x03:
                return resp([CLA, 0x50, 0x03] + list(a["signature"]))
            raise ProtocolViolation("ui attestation: bad op")
        if cmd == 0x51:   # SIGNER_AUTH
            op = data[0]
            if op == 0x01:
                if len(data) != 1 + 32 + 2:
                    raise ProtocolViolation("signer auth: bad sigver size")
                self.auth = {"hash": data[1:33], "iteration_bytes": data[33:35], "signatures": []}
                return resp([CLA, 0x51, 0x01])
            if op == 0x02:
                if self.auth is None or self.auth.get("done"):
                    raise ProtocolViolation("signer auth: signature unexpected")
                self.auth["signatures"].append(data[1:])
                if self.auth_threshold is not None and len(self.auth["signatures"]) >= self.auth_threshold:
                    self.auth["done"] = True
                    return resp([CLA, 0x51, 0x02, 0x02])
                return resp([CLA, 0x51, 0x02, 0x01])
            raise ProtocolViolation("signer auth: bad op")
        if cmd == 0x44:   # SEED idx byte
            self.seed[data[0]] = data[1]
            return resp([CLA, 0x44])
        if cmd == 0x07:   # WIPE
            self.wiped = True
            return resp([CLA, 2])
        raise ProtocolViolation("command %x in bootloader mode" % cmd)

    def _react_newpin(self):
        from sim.base import raise_fault, FAULT_SW, FAULT_WRITE, FAULT_READ, FAULT_TIMEOUT
        r = self.newpin_reaction
        if r == "sw":
            raise_fault(FAULT_SW, self.newpin_sw)
        if r == "write":
            raise_fault(FAULT_WRITE)
        if r == "read":
            raise_fault(FAULT_READ)
        if r == "timeout":
            raise_fault(FAULT_TIMEOUT)

    # ------------------------------------------------------------ signer
    def handle_signer(self, cmd, data):
        if cmd == 0x04:   # GET_PUBLIC_KEY: answer is the raw key
            return resp(self.pubkeys.get(tuple(data), self.default_pubkey))
        if cmd == 0x11:   # GET_PARAMETERS
            return resp([CLA, 0x11, 0] + list(self.params))
        if cmd == 0x20:
            return self.handle_state(data)
        if cmd == 0x21:
            if data != [0x01]:
                raise ProtocolViolation("reset advance: bad op")
            return resp([CLA, 0x21, 0x02])
        if cmd == 0x60:
            return self.handle_heartbeat(data)
        if cmd == 0x50:   # powHSM attestation
            op = data[0]
            a = self.pw_att
            if op == 0x01:
                a["ud"] = data[1:]
                return resp([CLA, 0x50, 0x01] + list(a["signature"]))
            if op in (0x02, 0x04):
                pages = a["msg_pages"] if op == 0x02 else a["env_pages"]
                page = data[1]
                if page >= len(pages):
                    raise ProtocolViolation("attestation: page out of range")
                if a["legacy"] and op == 0x02:
                    return resp([CLA, 0x50, 0x02] + list(pages[page]))      # legacy: no 'more' byte, single answer
                if a["legacy"]:
                    raise ProtocolViolation("legacy signer has no envelope operation")
                more = 1 if page + 1 < len(pages) else 0
                return resp([CLA, 0x50, op, more] + list(pages[page]))
            if op == 0x03:
                return resp([CLA, 0x50, 0x03] + list(a["app_hash"]))
            raise ProtocolViolation("attestation: bad op")
        if cmd == 0x02:
            return self.handle_sign(data)
        if cmd == 0x10:
            return self.handle_block_op(0x10, data)
        if cmd == 0x30:
            return self.handle_block_op(0x30, data)
        raise ProtocolViolation("command %x in signer mode" % cmd)

    def handle_state(self, data):
        op = data[0]
        if op == 0x01:
            sel = data[1]
            return resp([CLA, 0x20, 0x01, sel] + list(self.hashes.get(sel, [sel] * 32)))
        if op == 0x02:
            return resp([CLA, 0x20, 0x02] + list(self.difficulty))
        if op == 0x03:
            return resp([CLA, 0x20, 0x03] + list(self.flags))
        raise ProtocolViolation("get state: bad op")

    def handle_heartbeat(self, data):
        op = data[0]
        if op == 0x01:
            self.hb_ud = data[1:]
            return resp([CLA, 0x60, 0x01])
        if op == 0x02:
            return resp([CLA, 0x60, 0x02] + list(self.signature))
        if op == 0x03:
            return resp([CLA, 0x60, 0x03] + list(self.hb_message))
        if op == 0x04:
            return resp([CLA, 0x60, 0x04] + list(self.hb_tweak))
        if op == 0x05:
            return resp([CLA, 0x60, 0x05] + list(self.hb_pubkey))
        raise ProtocolViolation("heartbeat: bad op")

    # ---- sign: auth.c / auth_path.c / auth_tx.c / auth_receipt.c / auth_trie.c
    def handle_sign(self, data):
        op = data[0]
        body = data[1:]
        if op == 0x01:
            # path: 1 + 4*n bytes, then either 4 bytes input index or 32 bytes hash
            n = body[0]
            plen = 1 + 4 * n
            rest = body[plen:]
            self.sign = {"path": body[:plen], "parts": {2: [], 4: [], 8: []}, "chunks": {2: [], 4: [], 8: []}}
            if len(rest) == 4:
                self.sign["input"] = le(rest)
                self.sign["input_bytes"] = rest
                self.sign["expect"] = 2
                self.sign["requested"] = self.next_request()
                return resp([CLA, 0x02, 0x02, self.sign["requested"]])
            if len(rest) == 32:
                self.sign["hash"] = rest
                self.sign["done"] = True
                return resp([CLA, 0x02, 0x81] + list(self.signature))
            raise ProtocolViolation("sign/path: bad data size %d" % len(rest))
        s = self.sign
        if s is None or s.get("expect") != op:
            raise ProtocolViolation("sign: unexpected op %x" % op)
        if len(body) > s["requested"]:
            raise ProtocolViolation("sign: chunk larger than requested")
        s["parts"][op] = s["parts"][op] + body
        s["chunks"][op].append(len(body))
        got = s["parts"][op]
        # how many bytes does this part have in total? (parsed from the stream, as the firmware does)
        total = None
        if op == 0x02:
            if len(got) >= 7:
                total = le(got[0:4]) + le(got[5:7])
        elif op == 0x04:
            total = self.rlp_total(got)
        elif op == 0x08:
            total = self.proof_total(got)
        if total is not None and len(got) > total:
            raise ProtocolViolation("sign: more bytes than announced")
        if total is not None and len(got) == total:
            nxt = {2: 4, 4: 8, 8: 0x81}[op]
            if nxt == 0x81:
                s["done"] = True
                return resp([CLA, 0x02, 0x81] + list(self.signature))
            s["expect"] = nxt
            s["requested"] = self.next_request()
            return resp([CLA, 0x02, nxt, s["requested"]])
        if len(body) == 0:
            raise ProtocolViolation("sign: empty chunk while more data is expected")
        s["requested"] = self.next_request()
        return resp([CLA, 0x02, op, s["requested"]])

    @staticmethod
    def rlp_total(got):
        """Total length of the RLP item starting at got[0], or None if not yet known."""
        if len(got) < 1:
            return None
        b = got[0]
        if b < 0x80:
            return 1
        if b <= 0xb7:
            return 1 + (b - 0x80)
        if b <= 0xbf:
            n = b - 0xb7
            if len(got) < 1 + n:
                return None
            return 1 + n + be(got[1:1 + n])
        if b <= 0xf7:
            return 1 + (b - 0xc0)
        n = b - 0xf7
        if len(got) < 1 + n:
            return None
        return 1 + n + be(got[1:1 + n])

    @staticmethod
    def proof_total(got):
        if len(got) < 1:
            return None
        count = got[0]
        pos = 1
        for _ in range(count):
            if len(got) <= pos:
                return None
            pos += 1 + got[pos]
        return pos

    def parsed_sign(self):
        """The device's view of an authorized sign request, field by field."""
        s = self.sign
        tx = s["parts"][2]
        total = le(tx[0:4])
        mode = tx[4]
        edl = le(tx[5:7])
        btc = tx[7:total]
        ed = tx[total:total + edl]
        out = {"path": s["path"], "input": s.get("input"), "input_bytes": s.get("input_bytes"), "mode": mode, "tx": btc, "extradata": ed,
               "receipt": s["parts"][4], "announced_total": total, "edl": edl}
        pr = s["parts"][8]
        nodes = []
        if pr:
            pos = 1
            for _ in range(pr[0]):
                ln = pr[pos]
                nodes.append(pr[pos + 1:pos + 1 + ln])
                pos += 1 + ln
            out["proof_count"] = pr[0]
        out["nodes"] = nodes
        return out

    # ---- advance / update ancestor: bc_advance.c / bc_ancestor.c
    def handle_block_op(self, cmd, data):
        op = data[0]
        body = data[1:]
        adv = cmd == 0x10
        OP_INIT, OP_META, OP_CHUNK = 0x02, 0x03, 0x04
        OP_PARTIAL = 0x05 if adv else None
        OP_SUCCESS = 0x06 if adv else 0x05
        if op == OP_INIT:
            if len(body) != 4:
                raise ProtocolViolation("block op init: bad size")
            self.block_op = {"cmd": cmd, "count": be(body), "blocks": [], "cur": None, "state": "meta",
                             "kind": "block"}
            return resp([CLA, cmd, OP_META])
        b = self.block_op
        if b is None or b["cmd"] != cmd:
            raise ProtocolViolation("block op: not initialised")
        if adv and op == 0x07:     # brother list meta
            if b["state"] != "brolist" or len(body) != 1:
                raise ProtocolViolation("brother list meta unexpected")
            blk = b["blocks"][-1]
            blk["brother_count"] = body[0]
            if body[0] == 0:
                return self._after_block(b, cmd, OP_META, OP_PARTIAL, OP_SUCCESS)
            b["state"] = "brometa"
            return resp([CLA, cmd, 0x08])
        is_bro_meta = adv and op == 0x08
        is_bro_chunk = adv and op == 0x09
        if op == OP_META or is_bro_meta:
            want = "brometa" if is_bro_meta else "meta"
            if b["state"] != want:
                raise ProtocolViolation("metadata unexpected in state %s" % b["state"])
            explen = 2 + (32 if adv else 0)
            if len(body) != explen:
                raise ProtocolViolation("metadata: bad size %d" % len(body))
            hdr = {"mm_payload_len": be(body[0:2]), "cb_hash": body[2:], "data": [], "chunks": [],
                   "brothers": [], "brother_count": None}
            if is_bro_meta:
                b["blocks"][-1]["brothers"].append(hdr)
                b["state"] = "brochunk"
            else:
                b["blocks"].append(hdr)
                b["state"] = "chunk"
            b["cur"] = hdr
            b["requested"] = self.next_request()
            return resp([CLA, cmd, 0x09 if is_bro_meta else OP_CHUNK, b["requested"]])
        if op == OP_CHUNK or is_bro_chunk:
            want = "brochunk" if is_bro_chunk else "chunk"
            if b["state"] != want:
                raise ProtocolViolation("chunk unexpected in state %s" % b["state"])
            if len(body) > b["requested"]:
                raise ProtocolViolation("chunk larger than requested")
            hdr = b["cur"]
            hdr["data"] = hdr["data"] + body
            hdr["chunks"].append(len(body))
            total = self.rlp_total(hdr["data"])
            if total is not None and len(hdr["data"]) > total:
                raise ProtocolViolation("block: more bytes than the RLP announces")
            if total is not None and len(hdr["data"]) == total:
                if is_bro_chunk:
                    blk = b["blocks"][-1]
                    if len(blk["brothers"]) < blk["brother_count"]:
                        b["state"] = "brometa"
                        return resp([CLA, cmd, 0x08])
                    return self._after_block(b, cmd, OP_META, OP_PARTIAL, OP_SUCCESS)
                if adv and self.asks_brothers(len(b["blocks"]) - 1):
                    b["state"] = "brolist"
                    return resp([CLA, cmd, 0x07])
                return self._after_block(b, cmd, OP_META, OP_PARTIAL, OP_SUCCESS)
            if len(body) == 0:
                raise ProtocolViolation("empty chunk while more data is expected")
            b["requested"] = self.next_request()
            return resp([CLA, cmd, op, b["requested"]])
        raise ProtocolViolation("block op: bad op %x" % op)

    # policy knobs for block operations
    ask_brothers = True          # bool or list of bools per block
    stop_after = None            # (block_index, 'partial'|'success') : device ends the operation early

    def asks_brothers(self, i):
        ab = self.ask_brothers
        if isinstance(ab, (list, tuple)):
            return ab[i]
        return ab

    def _after_block(self, b, cmd, OP_META, OP_PARTIAL, OP_SUCCESS):
        n = len(b["blocks"])
        if self.stop_after is not None and self.stop_after[0] == n - 1:
            b["state"] = "done"
            b["result"] = self.stop_after[1]
            return resp([CLA, cmd, OP_PARTIAL if self.stop_after[1] == "partial" else OP_SUCCESS])
        if n >= b["count"]:
            b["state"] = "done"
            b["result"] = "success"
            return resp([CLA, cmd, OP_SUCCESS])
        b["state"] = "meta"
        return resp([CLA, cmd, OP_META])
